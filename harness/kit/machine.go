package kit

import (
	"fmt"
	"math/big"
	"sort"
	"time"

	cctptypes "github.com/circlefin/noble-cctp/x/cctp/types"
	ftftypes "github.com/circlefin/noble-fiattokenfactory/x/fiattokenfactory/types"

	sdkmath "cosmossdk.io/math"
	sdk "github.com/cosmos/cosmos-sdk/types"
	authtypes "github.com/cosmos/cosmos-sdk/x/auth/types"
	banktypes "github.com/cosmos/cosmos-sdk/x/bank/types"
	porttypes "github.com/cosmos/ibc-go/v8/modules/core/05-port/types"

	adaptertypes "github.com/noble-assets/orbiter/v2/types/component/adapter"
	executortypes "github.com/noble-assets/orbiter/v2/types/component/executor"
	forwardertypes "github.com/noble-assets/orbiter/v2/types/component/forwarder"

	"verif/harness/world"
)

// Admin is one message of the module's admin surface, as plain data.
type Admin struct {
	Kind           string   `json:"kind"`             // pause_protocol | unpause_protocol | pause_cc | unpause_cc | pause_action | unpause_action | update_params
	Signer         string   `json:"signer,omitempty"` // "" = the authority
	Protocol       string   `json:"protocol,omitempty"`
	Ids            []string `json:"ids,omitempty"`
	Action         string   `json:"action,omitempty"`
	MaxPassthrough uint32   `json:"max_passthrough,omitempty"`
}

func (a Admin) SignerString() string {
	if a.Signer == "" {
		return world.Authority
	}
	return a.Signer
}

func BuildAdmin(a Admin) (sdk.Msg, error) {
	s := a.SignerString()
	switch a.Kind {
	case "pause_protocol":
		return &forwardertypes.MsgPauseProtocol{Signer: s, ProtocolId: a.Protocol}, nil
	case "unpause_protocol":
		return &forwardertypes.MsgUnpauseProtocol{Signer: s, ProtocolId: a.Protocol}, nil
	case "pause_cc":
		return &forwardertypes.MsgPauseCrossChains{Signer: s, ProtocolId: a.Protocol, CounterpartyIds: a.Ids}, nil
	case "unpause_cc":
		return &forwardertypes.MsgUnpauseCrossChains{Signer: s, ProtocolId: a.Protocol, CounterpartyIds: a.Ids}, nil
	case "pause_action":
		return &executortypes.MsgPauseAction{Signer: s, ActionId: a.Action}, nil
	case "unpause_action":
		return &executortypes.MsgUnpauseAction{Signer: s, ActionId: a.Action}, nil
	case "update_params":
		return &adaptertypes.MsgUpdateParams{Signer: s, Params: adaptertypes.Params{MaxPassthroughPayloadSize: a.MaxPassthrough}}, nil
	}
	return nil, fmt.Errorf("unknown admin kind %q", a.Kind)
}

// AdminVerdict is the model's reading of a message against the property statements.
type AdminVerdict struct {
	OK       bool
	DontCare bool // the statements do not decide (empty batch, upper-case authority)
	Why      string
}

// JudgeAdmin decides, from the statements of C08/C09/C10/C18 alone, whether the message must
// succeed, and applies it to the model when it must.
func (s *State) JudgeAdmin(a Admin) AdminVerdict {
	signer := a.SignerString()
	if signer != world.Authority {
		if acc, err := sdk.AccAddressFromBech32(signer); err == nil && acc.String() == world.Authority {
			return AdminVerdict{DontCare: true, Why: "another spelling of the authority address"}
		}
		return AdminVerdict{OK: false, Why: "signer is not the authority"}
	}
	fail := func(format string, x ...any) AdminVerdict {
		return AdminVerdict{OK: false, Why: fmt.Sprintf(format, x...)}
	}
	switch a.Kind {
	case "pause_protocol", "unpause_protocol":
		p, ok := ProtocolNames[a.Protocol]
		if !ok {
			return fail("unknown protocol name %q", a.Protocol)
		}
		if a.Kind == "pause_protocol" {
			if s.PausedProtocols[p] {
				return fail("already paused")
			}
			s.PausedProtocols[p] = true
		} else {
			if !s.PausedProtocols[p] {
				return fail("not paused")
			}
			delete(s.PausedProtocols, p)
		}
		return AdminVerdict{OK: true}
	case "pause_cc", "unpause_cc":
		p, ok := ProtocolNames[a.Protocol]
		if !ok {
			return fail("unknown protocol name %q", a.Protocol)
		}
		if len(a.Ids) > MaxPauseBatch {
			return fail("batch of %d > %d", len(a.Ids), MaxPauseBatch)
		}
		if len(a.Ids) == 0 {
			return AdminVerdict{DontCare: true, Why: "empty batch"}
		}
		seen := map[string]bool{}
		for _, id := range a.Ids {
			if !CanonicalCounterparty(p, id) {
				return fail("invalid counterparty id %q", id)
			}
			if seen[id] {
				return fail("id %q repeated in the batch", id)
			}
			seen[id] = true
			if a.Kind == "pause_cc" && s.PausedCC[CC{p, id}] {
				return fail("id %q already paused", id)
			}
			if a.Kind == "unpause_cc" && !s.PausedCC[CC{p, id}] {
				return fail("id %q not paused", id)
			}
		}
		for _, id := range a.Ids {
			if a.Kind == "pause_cc" {
				s.PausedCC[CC{p, id}] = true
			} else {
				delete(s.PausedCC, CC{p, id})
			}
		}
		return AdminVerdict{OK: true}
	case "pause_action", "unpause_action":
		id, ok := ActionNames[a.Action]
		if !ok {
			return fail("unknown action name %q", a.Action)
		}
		if a.Kind == "pause_action" {
			if s.PausedActions[id] {
				return fail("already paused")
			}
			s.PausedActions[id] = true
		} else {
			if !s.PausedActions[id] {
				return fail("not paused")
			}
			delete(s.PausedActions, id)
		}
		return AdminVerdict{OK: true}
	case "update_params":
		s.MaxPassthrough = a.MaxPassthrough
		return AdminVerdict{OK: true}
	}
	return fail("unknown kind")
}

// Env is a step of the environment around orbiter.
type Env struct {
	// deposit | reescrow | ftf_pause | ftf_unpause | blacklist | unblacklist | burn_limit |
	// cctp_pause_burn | cctp_unpause_burn | cctp_pause_msgs | cctp_unpause_msgs | hyp_unenroll | hyp_enroll |
	// exec_mode (Amount = sdk.ExecMode of the context from here on) | next_block | upgrade (in-place migration from consensus version Amount) | send_disable | send_enable (bank's per-denomination send switch, Denom)
	// (the Hyperlane steps use Denom for the token and Amount for the domain; next_block uses Amount
	// for the number of blocks the chain advances by)
	Kind    string `json:"kind"`
	User    string `json:"user,omitempty"`
	Target  string `json:"target,omitempty"`
	Channel int    `json:"channel,omitempty"`
	Denom   string `json:"denom,omitempty"`
	Amount  string `json:"amount,omitempty"`
}

// Step is one element of a history: exactly one member is set.
type Step struct {
	Packet *Transfer `json:"packet,omitempty"`
	Admin  *Admin    `json:"admin,omitempty"`
	Env    *Env      `json:"env,omitempty"`
}

func (s Step) Kind() string {
	switch {
	case s.Packet != nil:
		return "packet"
	case s.Admin != nil:
		return "admin:" + s.Admin.Kind
	case s.Env != nil:
		return "env:" + s.Env.Kind
	}
	return "empty"
}

type History []Step

// Machine executes a history on one branch of a world next to the reference model.
type Machine struct {
	W     *world.World
	Ctx   sdk.Context
	Model *State
	seq   uint64
	// Strict: packets are serialised through the validating constructors.
	Strict bool
	// Stack, when set, replaces the world's transfer stack (the LAB world's stack).
	Stack porttypes.IBCModule
}

func NewMachine(w *world.World) *Machine {
	return &Machine{W: w, Ctx: w.Branch(), Model: NewState(), Strict: false}
}

// Obs is what one step showed.
type Obs struct {
	Step   Step
	Before world.Ledger
	After  world.Ledger
	Delta  world.Delta
	Out    world.Outcome // packets
	Tx     world.TxResult
	// Verdict of the model for admin steps.
	Verdict AdminVerdict
	// Run is the model's fold of the action list for a constructed packet.
	Run        Running
	PreOrbiter *big.Int // orbiter balance of the transferred denom before the packet
	BuildErr   error
	// ModelBefore is the model state the step started from.
	ModelBefore *State
}

// Constructed reports whether the packet's payload comes from the structured case (so that the
// model applies), as opposed to raw/mutated bytes.
func Constructed(t Transfer) bool {
	return t.RawMemo == nil && t.RawData == nil && t.RawDenom == nil && t.RawAmount == nil &&
		t.SrcPort == nil && t.SrcChannel == nil && t.DstChannel == nil
}

func (m *Machine) Do(s Step) Obs {
	o := Obs{Step: s, ModelBefore: m.Model.Clone()}
	o.Before = m.W.Ledger(m.Ctx)
	switch {
	case s.Packet != nil:
		t := *s.Packet
		m.seq++
		t.Seq = m.seq
		p, err := BuildPacket(m.W.Cdc, t, m.Strict)
		if err != nil {
			o.BuildErr = err
			o.After = o.Before
			o.Delta = world.Delta{}
			return o
		}
		o.PreOrbiter = o.Before.Get(world.OrbiterAddr.String(), t.Denom)
		if Constructed(t) {
			o.Run = RunActions(t.Denom, t.AmountInt(), t.Actions)
		}
		stack := m.W.Stack
		if m.Stack != nil {
			stack = m.Stack
		}
		o.Out = world.Recv(m.Ctx, stack, p)
	case s.Admin != nil:
		msg, err := BuildAdmin(*s.Admin)
		if err != nil {
			o.BuildErr = err
			break
		}
		o.Verdict = m.Model.JudgeAdmin(*s.Admin)
		o.Tx = m.W.Tx(m.Ctx, msg)
	case s.Env != nil:
		o.Tx = m.doEnv(*s.Env)
	}
	o.After = m.W.Ledger(m.Ctx)
	o.Delta = world.Diff(o.Before, o.After)
	return o
}

func (m *Machine) doEnv(e Env) world.TxResult {
	amt, _ := sdkmath.NewIntFromString(e.Amount)
	switch e.Kind {
	case "next_block":
		// The following steps run in a later block: height and time of the execution context
		// move on (6 s per block), the state stays. Everything before ran "in the same block".
		n := int64(1)
		if amt.IsInt64() && amt.Int64() > 0 {
			n = amt.Int64()
		}
		m.Ctx = m.Ctx.WithBlockHeight(m.Ctx.BlockHeight() + n).WithBlockTime(m.Ctx.BlockTime().Add(time.Duration(n) * 6 * time.Second))
		return world.TxResult{}
	case "deposit":
		return m.W.Tx(m.Ctx, &banktypes.MsgSend{
			FromAddress: world.Addr(e.User).String(), ToAddress: world.OrbiterAddr.String(),
			Amount: sdk.Coins{sdk.Coin{Denom: e.Denom, Amount: amt}},
		})
	case "reescrow":
		// A user transfers coins out again over the channel: they go back into its escrow.
		// (Direct keeper send: the escrow account is a plain account, but the transfer module's
		// total-escrow bookkeeping must follow, as SendTransfer does.)
		from := world.Addr(e.User)
		if e.Target != "" {
			a, err := sdk.AccAddressFromBech32(e.Target)
			if err != nil {
				return world.TxResult{Err: err}
			}
			from = a
		}
		bal := m.W.App.BankKeeper.GetBalance(m.Ctx, from, e.Denom)
		if e.Amount == "all" {
			amt = bal.Amount
		}
		if !amt.IsPositive() || bal.Amount.LT(amt) {
			return world.TxResult{Err: fmt.Errorf("nothing to re-escrow")}
		}
		coin := sdk.Coin{Denom: e.Denom, Amount: amt}
		if err := m.W.App.BankKeeper.SendCoins(m.Ctx, from, world.EscrowAddr(e.Channel), sdk.Coins{coin}); err != nil {
			return world.TxResult{Err: err}
		}
		cur := m.W.App.TransferKeeper.GetTotalEscrowForDenom(m.Ctx, e.Denom)
		m.W.App.TransferKeeper.SetTotalEscrowForDenom(m.Ctx, cur.Add(coin))
		return world.TxResult{}
	case "mint_to_orbiter":
		// coins of a denomination nobody holds yet (the LAB swap output, whose PROD-side Hyperlane
		// token exists) appear on the orbiter account: minted by the transfer module, as an
		// incoming voucher would be, and sent there
		coins := sdk.Coins{sdk.Coin{Denom: e.Denom, Amount: amt}}
		if !amt.IsPositive() {
			return world.TxResult{Err: fmt.Errorf("nothing to mint")}
		}
		if err := m.W.App.BankKeeper.MintCoins(m.Ctx, "transfer", coins); err != nil {
			return world.TxResult{Err: err}
		}
		if err := m.W.App.BankKeeper.SendCoinsFromModuleToAccount(m.Ctx, "transfer", world.OrbiterAddr, coins); err != nil {
			return world.TxResult{Err: err}
		}
		return world.TxResult{}
	case "exec_mode":
		// the following steps run under another execution mode of the context (0 check, 2 simulate,
		// 3/4 proposal handling, 7 finalize, ...): the module's behaviour does not depend on it
		mode := uint8(0)
		if amt.IsUint64() {
			mode = uint8(amt.Uint64() % 8)
		}
		m.Ctx = m.Ctx.WithExecMode(sdk.ExecMode(mode))
		return world.TxResult{}
	case "upgrade":
		// an in-place upgrade: the module manager runs the migrations the module registers, from
		// consensus version Amount (1 by default) to the current one. On a tree whose module is at
		// version 1 there is nothing to run (reported as a failed step: nothing happened).
		vm := m.W.App.ModuleManager.GetVersionMap()
		cur := vm["orbiter"]
		from := uint64(1)
		if amt.IsUint64() && amt.Uint64() >= 1 {
			from = amt.Uint64()
		}
		if from >= cur {
			return world.TxResult{Err: fmt.Errorf("no migration to run: the module is at consensus version %d", cur)}
		}
		vm["orbiter"] = from
		c, write := m.Ctx.CacheContext()
		var res world.TxResult
		func() {
			defer func() {
				if r := recover(); r != nil {
					res.Panic, res.Err = r, fmt.Errorf("panic: %v", r)
				}
			}()
			_, res.Err = m.W.App.ModuleManager.RunMigrations(c, m.W.App.Configurator(), vm)
		}()
		if res.Err == nil {
			write()
		}
		return res
	case "send_disable", "send_enable":
		// the bank's per-denomination send switch, set by the bank module's authority (governance):
		// it governs bank MsgSend (the internal route), not the keeper-level movements
		return m.W.Tx(m.Ctx, &banktypes.MsgSetSendEnabled{
			Authority:   authtypes.NewModuleAddress("gov").String(),
			SendEnabled: []*banktypes.SendEnabled{{Denom: e.Denom, Enabled: e.Kind == "send_enable"}},
		})
	case "ftf_pause":
		return m.W.Tx(m.Ctx, &ftftypes.MsgPause{From: world.Addr("ftf-pauser").String()})
	case "ftf_unpause":
		return m.W.Tx(m.Ctx, &ftftypes.MsgUnpause{From: world.Addr("ftf-pauser").String()})
	case "blacklist":
		return m.W.Tx(m.Ctx, &ftftypes.MsgBlacklist{From: world.Addr("ftf-blacklister").String(), Address: e.Target})
	case "unblacklist":
		return m.W.Tx(m.Ctx, &ftftypes.MsgUnblacklist{From: world.Addr("ftf-blacklister").String(), Address: e.Target})
	case "burn_limit":
		return m.W.Tx(m.Ctx, &cctptypes.MsgSetMaxBurnAmountPerMessage{
			From: world.Addr("cctp-tokencontroller").String(), LocalToken: world.Uusdc, Amount: amt,
		})
	case "cctp_pause_burn":
		return m.W.Tx(m.Ctx, &cctptypes.MsgPauseBurningAndMinting{From: world.Addr("cctp-pauser").String()})
	case "cctp_unpause_burn":
		return m.W.Tx(m.Ctx, &cctptypes.MsgUnpauseBurningAndMinting{From: world.Addr("cctp-pauser").String()})
	case "cctp_pause_msgs":
		return m.W.Tx(m.Ctx, &cctptypes.MsgPauseSendingAndReceivingMessages{From: world.Addr("cctp-pauser").String()})
	case "cctp_unpause_msgs":
		return m.W.Tx(m.Ctx, &cctptypes.MsgUnpauseSendingAndReceivingMessages{From: world.Addr("cctp-pauser").String()})
	case "hyp_unenroll", "hyp_enroll":
		id, ok := m.W.HypToken[e.Denom]
		if !ok || !amt.IsUint64() {
			return world.TxResult{Err: fmt.Errorf("no such Hyperlane token or domain")}
		}
		return m.W.HypRouter(m.Ctx, id, uint32(amt.Uint64()), e.Kind == "hyp_enroll")
	}
	return world.TxResult{Err: fmt.Errorf("unknown env step %q", e.Kind)}
}

// ---------------------------------------------------------------------------------------------
// Reading the implementation's state for comparison with the model.

// ImplState is the module's exported state in model terms.
type ImplState struct {
	PausedProtocols []int32
	PausedCC        []CC
	PausedActions   []int32
	MaxPassthrough  uint32
	Amounts         map[StatKey]StatVal
	Counts          map[RouteKey]uint64
}

func (m *Machine) Impl() ImplState { return ReadImpl(m.W, m.Ctx) }

func ReadImpl(w *world.World, ctx sdk.Context) ImplState {
	g := w.App.OrbiterKeeper.ExportGenesis(ctx)
	var s ImplState
	for _, p := range g.ForwarderGenesis.PausedProtocolIds {
		s.PausedProtocols = append(s.PausedProtocols, int32(p))
	}
	for _, c := range g.ForwarderGenesis.PausedCrossChainIds {
		s.PausedCC = append(s.PausedCC, CC{int32(c.ProtocolId), c.CounterpartyId})
	}
	for _, a := range g.ExecutorGenesis.PausedActionIds {
		s.PausedActions = append(s.PausedActions, int32(a))
	}
	s.MaxPassthrough = g.AdapterGenesis.Params.MaxPassthroughPayloadSize
	s.Amounts = map[StatKey]StatVal{}
	for _, e := range g.DispatcherGenesis.DispatchedAmounts {
		k := StatKey{int32(e.SourceId.ProtocolId), e.SourceId.CounterpartyId, int32(e.DestinationId.ProtocolId), e.DestinationId.CounterpartyId, e.Denom}
		s.Amounts[k] = StatVal{In: e.AmountDispatched.Incoming.BigInt(), Out: e.AmountDispatched.Outgoing.BigInt()}
	}
	s.Counts = map[RouteKey]uint64{}
	for _, e := range g.DispatcherGenesis.DispatchedCounts {
		k := RouteKey{int32(e.SourceId.ProtocolId), e.SourceId.CounterpartyId, int32(e.DestinationId.ProtocolId), e.DestinationId.CounterpartyId}
		s.Counts[k] = e.Count
	}
	return s
}

// ComparePause compares pause sets and the parameter of the model with the implementation.
func (s *State) ComparePause(impl ImplState) error {
	var mp []int32
	for p := range s.PausedProtocols {
		mp = append(mp, p)
	}
	sort.Slice(mp, func(i, j int) bool { return mp[i] < mp[j] })
	ip := append([]int32{}, impl.PausedProtocols...)
	sort.Slice(ip, func(i, j int) bool { return ip[i] < ip[j] })
	if fmt.Sprint(mp) != fmt.Sprint(ip) {
		return fmt.Errorf("paused protocols: model %v, implementation %v", mp, ip)
	}
	var mc []CC
	for c := range s.PausedCC {
		mc = append(mc, c)
	}
	sortCC(mc)
	ic := append([]CC{}, impl.PausedCC...)
	sortCC(ic)
	if fmt.Sprint(mc) != fmt.Sprint(ic) {
		return fmt.Errorf("paused cross-chains: model %v, implementation %v", mc, ic)
	}
	var ma []int32
	for a := range s.PausedActions {
		ma = append(ma, a)
	}
	sort.Slice(ma, func(i, j int) bool { return ma[i] < ma[j] })
	ia := append([]int32{}, impl.PausedActions...)
	sort.Slice(ia, func(i, j int) bool { return ia[i] < ia[j] })
	if fmt.Sprint(ma) != fmt.Sprint(ia) {
		return fmt.Errorf("paused actions: model %v, implementation %v", ma, ia)
	}
	if s.MaxPassthrough != impl.MaxPassthrough {
		return fmt.Errorf("max passthrough size: model %d, implementation %d", s.MaxPassthrough, impl.MaxPassthrough)
	}
	return nil
}

func sortCC(x []CC) {
	sort.Slice(x, func(i, j int) bool {
		if x[i].Protocol != x[j].Protocol {
			return x[i].Protocol < x[j].Protocol
		}
		return x[i].Counterparty < x[j].Counterparty
	})
}

// CompareStats compares the statistics ledger of the model with the implementation.
func (s *State) CompareStats(impl ImplState) error {
	for k, v := range s.Amounts {
		iv, ok := impl.Amounts[k]
		if !ok {
			return fmt.Errorf("amounts: entry %+v (in %s, out %s) missing from the implementation", k, v.In, v.Out)
		}
		if iv.In.Cmp(v.In) != 0 || iv.Out.Cmp(v.Out) != 0 {
			return fmt.Errorf("amounts: entry %+v: model in=%s out=%s, implementation in=%s out=%s", k, v.In, v.Out, iv.In, iv.Out)
		}
	}
	for k, iv := range impl.Amounts {
		if _, ok := s.Amounts[k]; !ok {
			return fmt.Errorf("amounts: implementation has entry %+v (in %s, out %s) the model does not", k, iv.In, iv.Out)
		}
	}
	for k, v := range s.Counts {
		if impl.Counts[k] != v {
			return fmt.Errorf("counts: entry %+v: model %d, implementation %d", k, v, impl.Counts[k])
		}
	}
	for k, iv := range impl.Counts {
		if _, ok := s.Counts[k]; !ok {
			return fmt.Errorf("counts: implementation has entry %+v (%d) the model does not", k, iv)
		}
	}
	return nil
}

// SyncPause overwrites the model's pause sets and parameter with the implementation's (used by
// checks whose subject is not the admin surface, and after don't-care messages).
func (s *State) SyncPause(impl ImplState) {
	s.PausedProtocols = map[int32]bool{}
	for _, p := range impl.PausedProtocols {
		s.PausedProtocols[p] = true
	}
	s.PausedCC = map[CC]bool{}
	for _, c := range impl.PausedCC {
		s.PausedCC[c] = true
	}
	s.PausedActions = map[int32]bool{}
	for _, a := range impl.PausedActions {
		s.PausedActions[a] = true
	}
	s.MaxPassthrough = impl.MaxPassthrough
}

// SyncStats overwrites the model's statistics with the implementation's.
func (s *State) SyncStats(impl ImplState) {
	s.Amounts = map[StatKey]*StatVal{}
	for k, v := range impl.Amounts {
		s.Amounts[k] = &StatVal{In: new(big.Int).Set(v.In), Out: new(big.Int).Set(v.Out)}
	}
	s.Counts = map[RouteKey]uint64{}
	for k, v := range impl.Counts {
		s.Counts[k] = v
	}
}
