package kit

import (
	"fmt"
	sdk "github.com/cosmos/cosmos-sdk/types"
	"math/big"
	"math/bits"
	"strings"

	"pgregory.net/rapid"

	"github.com/cosmos/cosmos-sdk/types/bech32"

	"verif/harness/world"
)

// All randomness comes from rapid. No wall clock, no map iteration.

// rapid's integer generators are deliberately biased towards small values, which would turn a
// nominal "10 %" into something much larger; choices are therefore drawn from uniform bits
// (rapid.Bool is uniform). All-false shrinks to index 0 / "no", so lists put the plainest value
// first.
func uniform(t *rapid.T, label string, n int) int {
	if n <= 1 {
		return 0
	}
	k := bits.Len(uint(n-1)) + 4
	v := 0
	for i, b := range rapid.SliceOfN(rapid.Bool(), k, k).Draw(t, label) {
		if b {
			v |= 1 << i
		}
	}
	return v % n
}

func Pick[T any](t *rapid.T, label string, xs []T) T { return xs[uniform(t, label, len(xs))] }

func Chance(t *rapid.T, label string, percent int) bool {
	return uniform(t, label, 1000) >= 1000-10*percent
}

func pick[T any](t *rapid.T, label string, xs []T) T { return Pick(t, label, xs) }

func chance(t *rapid.T, label string, percent int) bool { return Chance(t, label, percent) }

func Fill32(b byte) []byte {
	out := make([]byte, 32)
	for i := range out {
		out[i] = b
	}
	return out
}

// Bytes32 draws a 32-byte value from a small pool (so that equal values recur) or at random.
func Bytes32(t *rapid.T, label string) []byte {
	if chance(t, label+"/pool", 70) {
		return Fill32(byte(rapid.IntRange(1, 6).Draw(t, label+"/b")))
	}
	return rapid.SliceOfN(rapid.Byte(), 32, 32).Draw(t, label)
}

// ---------------------------------------------------------------------------------------------
// Addresses

// Upper returns the upper-case spelling of a bech32 address (bech32 allows all-upper-case).
func Upper(addr string) string { return strings.ToUpper(addr) }

// OtherPrefix re-encodes the bytes of a Noble address under another human-readable part.
func OtherPrefix(addr string, hrp string) string {
	_, bz, err := bech32.DecodeAndConvert(addr)
	if err != nil {
		panic(err)
	}
	s, err := bech32.ConvertAndEncode(hrp, bz)
	if err != nil {
		panic(err)
	}
	return s
}

// PlainUsers are ordinary accounts with no special role.
var PlainUsers = []string{"alice", "bob", "carol", "dave", "erin", "frank"}

func PlainUser(t *rapid.T, label string) string {
	return world.Addr(pick(t, label, PlainUsers)).String()
}

// RecipientClass names the classes of bank recipients the generators draw from.
var RecipientClasses = []string{"plain", "plain-upper", "orbiter", "orbiter-upper", "dust", "blacklisted", "module-warp", "fresh", "long32", "short2", "blocked-pool"}

func Recipient(t *rapid.T, label string, classes []string) (addr string, class string) {
	class = pick(t, label+"/class", classes)
	switch class {
	case "plain":
		addr = PlainUser(t, label)
	case "plain-upper":
		addr = Upper(PlainUser(t, label))
	case "orbiter":
		addr = world.OrbiterAddr.String()
	case "orbiter-upper":
		addr = Upper(world.OrbiterAddr.String())
	case "dust":
		addr = world.DustAddr.String()
	case "blacklisted":
		addr = world.Addr("blacklisted").String()
	case "module-warp":
		addr = world.WarpAddr.String()
	case "fresh":
		addr = world.Addr(fmt.Sprintf("fresh-%d", rapid.IntRange(0, 3).Draw(t, label+"/n"))).String()
	case "blocked-pool":
		// another account the bank refuses to credit (blocked in the application's configuration)
		addr = world.BlockedPoolAddr.String()
	case "long32":
		// a 32-byte account address, as contracts, interchain accounts and derived module
		// accounts have
		addr = sdk.AccAddress(Fill32(byte(0xA0 + rapid.IntRange(0, 3).Draw(t, label+"/n")))).String()
	case "short2":
		// the shortest addresses the SDK accepts
		addr = sdk.AccAddress([]byte{0x01, byte(rapid.IntRange(0, 3).Draw(t, label+"/n"))}).String()
	default:
		panic("unknown recipient class " + class)
	}
	return addr, class
}

// ---------------------------------------------------------------------------------------------
// Amounts

var (
	burnLimit = big.NewInt(world.BurnLimit)
)

// Amount draws a transfer amount for denom. Classes: small, typical, around the CCTP burn limit,
// powers of two and their neighbours up to 2^256-1 (only the denom whose supply allows it).
func Amount(t *rapid.T, label string, denom string) (*big.Int, string) {
	classes := []string{"small", "typical", "typical", "burn-limit"}
	if denom == world.Uhuge {
		classes = []string{"small", "typical", "pow2", "pow2", "max", "word-boundary", "anybits"}
	}
	class := pick(t, label+"/class", classes)
	switch class {
	case "small":
		return big.NewInt(int64(rapid.IntRange(1, 20).Draw(t, label))), class
	case "typical":
		return big.NewInt(rapid.Int64Range(100, 1_000_000_000).Draw(t, label)), class
	case "burn-limit":
		return new(big.Int).Add(burnLimit, big.NewInt(int64(rapid.IntRange(-3, 3).Draw(t, label)))), class
	case "anybits":
		return AnyBits(t, label), class
	case "word-boundary":
		// around the 32-, 63- and 64-bit boundaries
		e := pick(t, label+"/wexp", []uint{31, 32, 63, 63, 64, 64, 127, 128})
		v := new(big.Int).Lsh(big.NewInt(1), e)
		v.Add(v, big.NewInt(int64(rapid.IntRange(-1, 1).Draw(t, label+"/woff"))))
		return v, class
	case "pow2":
		e := 60 + uniform(t, label+"/exp", 197)
		v := new(big.Int).Lsh(big.NewInt(1), uint(e))
		v.Add(v, big.NewInt(int64(rapid.IntRange(-2, 2).Draw(t, label+"/off"))))
		if v.Cmp(world.MaxUint256) > 0 {
			v = new(big.Int).Set(world.MaxUint256)
		}
		return v, class
	default:
		return new(big.Int).Set(world.MaxUint256), class
	}
}

// AnyBits draws a positive amount of any magnitude up to 2^256-1: the bit length is uniform in
// 1..256 and the lower bits are random, so that every word size (32, 64, 128 bits) and the space
// between them is met with the same frequency.
func AnyBits(t *rapid.T, label string) *big.Int {
	bits := 1 + uniform(t, label+"/bits", 256)
	raw := rapid.SliceOfN(rapid.Byte(), 32, 32).Draw(t, label+"/raw")
	v := new(big.Int).SetBytes(raw)
	v.Rsh(v, uint(256-bits))
	v.SetBit(v, bits-1, 1)
	return v
}

// NumberSpelling draws the text of a number from a grammar of the spellings on which integer
// parsers disagree: sign, radix prefix (0x/0b/0o and the bare leading zero that base-0 parsers read
// as octal), digits from a chosen alphabet (decimal digits 8 and 9 after a leading zero are what
// tells base 10 from base 0), digit separators, surrounding white space, fractions, exponents and
// non-ASCII digits. Wherever the module reads a number out of a string, every reader must agree.
func NumberSpelling(t *rapid.T, label string) string {
	sign := pick(t, label+"/sign", []string{"", "", "", "", "-", "+"})
	prefix := pick(t, label+"/prefix", []string{"", "", "", "0", "0", "00", "0x", "0X", "0b", "0o", "0O"})
	alphabet := pick(t, label+"/alphabet", []string{"0123456789", "0123456789", "89", "01234567", "0123456789abcdefABCDEF", "01"})
	n := 1 + uniform(t, label+"/len", 6)
	var b strings.Builder
	for i := 0; i < n; i++ {
		b.WriteByte(alphabet[uniform(t, fmt.Sprintf("%s/d%d", label, i), len(alphabet))])
		if i+1 < n && chance(t, fmt.Sprintf("%s/sep%d", label, i), 5) {
			b.WriteByte('_')
		}
	}
	digits := b.String()
	if chance(t, label+"/wide", 4) {
		digits = pick(t, label+"/widev", []string{"\u0663", "\uff11\uff10", "\u0668", "1\u0660"})
	}
	suffix := pick(t, label+"/suffix", []string{"", "", "", "", "", " ", "\n", ".0", ".5", "e2", "E2", "n", "_"})
	lead := pick(t, label+"/lead", []string{"", "", "", "", "", " ", "\t"})
	return lead + sign + prefix + digits + suffix
}

// ---------------------------------------------------------------------------------------------
// Fees

// ValidFees draws a fee list that the statement says must be accepted on amount A: at most five
// entries, bps in 1..10000, positive fixed amounts, valid recipients, total strictly below A.
// recipients are drawn from classes.
func ValidFees(t *rapid.T, label string, A *big.Int, classes []string) []Fee {
	n := uniform(t, label+"/n", MaxFeeEntries+1)
	var fees []Fee
	remaining := new(big.Int).Sub(A, big.NewInt(1)) // total must stay <= A-1
	for i := 0; i < n; i++ {
		rcpt, _ := Recipient(t, fmt.Sprintf("%s/%d/rcpt", label, i), classes)
		if chance(t, fmt.Sprintf("%s/%d/fixed", label, i), 40) {
			if remaining.Sign() <= 0 {
				continue
			}
			var amt *big.Int
			if remaining.IsInt64() && remaining.Int64() < 1_000_000 {
				amt = big.NewInt(rapid.Int64Range(1, remaining.Int64()).Draw(t, fmt.Sprintf("%s/%d/amt", label, i)))
			} else {
				// a fraction of what is left
				num := int64(rapid.IntRange(1, 1000).Draw(t, fmt.Sprintf("%s/%d/frac", label, i)))
				amt = new(big.Int).Mul(remaining, big.NewInt(num))
				amt.Quo(amt, big.NewInt(4000))
				if amt.Sign() == 0 {
					amt = big.NewInt(1)
				}
			}
			fees = append(fees, Fee{Recipient: rcpt, Fixed: amt.String()})
			remaining.Sub(remaining, amt)
		} else {
			// bps whose fee fits in what is left: fee = floor(A*bps/10000) <= remaining
			maxBps := new(big.Int).Mul(remaining, big10000)
			maxBps.Quo(maxBps, A)
			mb := int64(10000)
			if maxBps.IsInt64() && maxBps.Int64() < mb {
				mb = maxBps.Int64()
			}
			if mb < 1 {
				continue
			}
			if new(big.Int).Mul(A, big.NewInt(mb)).Cmp(two256) >= 0 {
				// keep A*bps below 2^256 (the overflow region is generated separately)
				lim := new(big.Int).Quo(new(big.Int).Sub(two256, big.NewInt(1)), A)
				if !lim.IsInt64() || lim.Int64() < 1 {
					continue
				}
				if lim.Int64() < mb {
					mb = lim.Int64()
				}
			}
			bps := uint32(rapid.Int64Range(1, mb).Draw(t, fmt.Sprintf("%s/%d/bps", label, i)))
			fee := new(big.Int).Mul(A, big.NewInt(int64(bps)))
			fee.Quo(fee, big10000)
			fees = append(fees, Fee{Recipient: rcpt, Bps: bps})
			remaining.Sub(remaining, fee)
		}
	}
	return fees
}

// ---------------------------------------------------------------------------------------------
// Routes

type RouteOpt struct {
	// EnvValid restricts the draw to destinations configured in the harness environment, so that
	// the external module accepts the request.
	EnvValid bool
	// RecipientClasses for internal forwarding.
	InternalClasses []string
	Kinds           []string
}

var AllRouteKinds = []string{"cctp", "hyp", "internal"}

// GenRoute draws a route for a coin of the given denomination.
func GenRoute(t *rapid.T, w *world.World, denom string, opt RouteOpt) Route {
	kinds := opt.Kinds
	if len(kinds) == 0 {
		kinds = AllRouteKinds
	}
	if opt.EnvValid {
		var ok []string
		for _, k := range kinds {
			switch k {
			case "cctp":
				if denom == world.Uusdc {
					ok = append(ok, k)
				}
			case "hyp":
				if _, has := w.HypToken[denom]; has {
					ok = append(ok, k)
				}
			default:
				ok = append(ok, k)
			}
		}
		kinds = ok
		if len(kinds) == 0 {
			kinds = []string{"internal"}
		}
	}
	kind := pick(t, "route/kind", kinds)
	r := Route{Kind: kind}
	switch kind {
	case "cctp":
		if opt.EnvValid || chance(t, "route/cctp/known-domain", 80) {
			r.Domain = pick(t, "route/cctp/domain", world.CCTPDomains)
		} else {
			r.Domain = pick(t, "route/cctp/odd-domain", []uint32{6, 9, 4294967295})
		}
		r.MintRecipient = Bytes32(t, "route/cctp/mint")
		if chance(t, "route/cctp/caller", 50) {
			r.DestCaller = Bytes32(t, "route/cctp/callerv")
		}
	case "hyp":
		tokDenom := denom
		if !opt.EnvValid && chance(t, "route/hyp/othertoken", 15) {
			tokDenom = pick(t, "route/hyp/tokdenom", append(append([]string{}, world.HypDenoms...), world.SynthDenom))
		}
		if tokDenom == world.SynthDenom && len(w.HypSynth) > 0 {
			r.TokenID = append([]byte{}, w.HypSynth...)
		} else if id, ok := w.HypToken[tokDenom]; ok {
			r.TokenID = append([]byte{}, id...)
		} else {
			r.TokenID = Fill32(0x77) // no such token
		}
		if opt.EnvValid || chance(t, "route/hyp/known-domain", 80) {
			r.Domain = pick(t, "route/hyp/domain", world.HypDomains)
		} else {
			r.Domain = pick(t, "route/hyp/odd-domain", []uint32{0, 3, 4294967295})
		}
		r.Recipient = Bytes32(t, "route/hyp/rcpt")
		if chance(t, "route/hyp/hook", 30) {
			r.HookID = append([]byte{}, w.HypHook...)
		}
		if chance(t, "route/hyp/meta", 30) {
			r.HookMeta = pick(t, "route/hyp/metav", []string{"0x", "0x00", "0xdeadbeef"})
		}
		if chance(t, "route/hyp/gas", 30) {
			r.GasLimit = pick(t, "route/hyp/gasv", []string{"1", "200000", "340282366920938463463374607431768211456"})
		}
		if chance(t, "route/hyp/maxfee", 30) {
			r.MaxFeeDenom = pick(t, "route/hyp/maxfeed", []string{world.Uusdc, world.Ufoo})
			r.MaxFeeAmount = pick(t, "route/hyp/maxfeea", []string{"0", "1", "1000000"})
		}
	case "internal":
		classes := opt.InternalClasses
		if len(classes) == 0 {
			classes = []string{"plain"}
		}
		r.To, _ = Recipient(t, "route/internal/to", classes)
	}
	return r
}

// CrossedTokenRoute is a Hyperlane route that names the collateral token of ANOTHER denomination
// than the one transferred: the one parameter of a route that decides which coin leaves the
// orbiter account. Such a transfer must be refused; if it were accepted the outgoing leg would be
// paid out of whatever the orbiter account holds in the token's own denomination.
func CrossedTokenRoute(t *rapid.T, w *world.World, label, denom string) (Route, string) {
	var others []string
	for _, d := range world.HypDenoms {
		if d != denom {
			others = append(others, d)
		}
	}
	// ... or the SYNTHETIC token of the environment, whose own denomination is never transferred
	if len(w.HypSynth) > 0 {
		others = append(others, world.SynthDenom, world.SynthDenom)
	}
	other := pick(t, label+"/tokdenom", others)
	id := w.HypToken[other]
	if other == world.SynthDenom {
		id = w.HypSynth
	}
	return Route{Kind: "hyp", TokenID: append([]byte{}, id...), Domain: pick(t, label+"/domain", world.HypDomains), Recipient: Bytes32(t, label+"/rcpt")}, other
}

// ---------------------------------------------------------------------------------------------
// Transfers

type TransferOpt struct {
	Route          RouteOpt
	FeeClasses     []string // recipient classes for fee entries; nil = plain
	MaxActions     int      // 0 or 1 in PROD (fee only)
	Denoms         []string
	Passthrough    func(t *rapid.T) []byte
	KeepBelowLimit bool // keep the forwarded amount within the CCTP burn limit for cctp routes
}

var AllDenoms = []string{world.Uusdc, world.Ufoo, world.Gamm, world.Tricky, world.IBCVoucher, world.Uhuge, world.OddDenom, world.LongDenom}

// GenTransfer draws an orbiter transfer that is well-formed by construction.
func GenTransfer(t *rapid.T, w *world.World, opt TransferOpt) Transfer {
	denoms := opt.Denoms
	if len(denoms) == 0 {
		denoms = AllDenoms
	}
	denom := pick(t, "denom", denoms)
	ch := uniform(t, "channel", world.NumChannels)
	if denom == world.Uhuge {
		ch = 0 // the only escrow that holds it
	}
	route := GenRoute(t, w, denom, opt.Route)
	A, _ := Amount(t, "amount", denom)
	if route.Kind == "cctp" && opt.KeepBelowLimit && A.Cmp(burnLimit) > 0 {
		A = new(big.Int).Set(burnLimit)
	}
	tr := Transfer{Channel: ch, Denom: denom, Amount: A.String(), Route: route}
	if opt.MaxActions > 0 && chance(t, "with-fee", 60) {
		classes := opt.FeeClasses
		if len(classes) == 0 {
			classes = []string{"plain"}
		}
		tr.Actions = []Action{{Kind: "fee", Fees: ValidFees(t, "fees", A, classes)}}
	}
	if opt.Passthrough != nil {
		tr.Route.Passthrough = opt.Passthrough(t)
	}
	return tr
}

// ShapeKey is the canonical form used to count distinct transfers.
func ShapeKey(t Transfer) string { return JSON(t) }
