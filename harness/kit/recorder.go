package kit

import (
	"encoding/binary"
	"encoding/json"
	"fmt"
	"hash/fnv"
	"os"
	"sort"
	"strings"
	"sync"
	"testing"
)

// Recorder collects what a check actually covered. It is flushed to the side file named by
// VERIF_OUT when the test ends; the driver merges the side files of all shards into the evidence.
type Recorder struct {
	mu       sync.Mutex
	Property string
	Test     string

	evals      int
	nontrivial map[uint64]struct{}
	labels     map[string]map[string]int
	samples    map[string][]json.RawMessage
	excluded   map[string]int
	starved    []string
	notes      []string
	maxSamples int
}

type sideFile struct {
	Property   string                       `json:"property"`
	Test       string                       `json:"test"`
	Evals      int                          `json:"evaluations"`
	NonTrivial int                          `json:"nontrivial_local"`
	HashFile   string                       `json:"hash_file"`
	Labels     map[string]map[string]int    `json:"labels"`
	Samples    map[string][]json.RawMessage `json:"samples"`
	Excluded   map[string]int               `json:"excluded"`
	Starved    []string                     `json:"starved"`
	Notes      []string                     `json:"notes"`
}

func NewRecorder(t testing.TB, property string) *Recorder {
	r := &Recorder{
		Property:   property,
		Test:       t.Name(),
		nontrivial: map[uint64]struct{}{},
		labels:     map[string]map[string]int{},
		samples:    map[string][]json.RawMessage{},
		excluded:   map[string]int{},
		maxSamples: 2,
	}
	t.Cleanup(func() { r.Flush() })
	return r
}

// Eval counts one generated case.
func (r *Recorder) Eval() {
	if r == nil {
		return
	}
	r.mu.Lock()
	r.evals++
	r.mu.Unlock()
}

// NonTrivial registers a case that is non-trivial by the property's rule; key is the canonical
// form that decides distinctness.
func (r *Recorder) NonTrivial(key string) {
	if r == nil {
		return
	}
	h := fnv.New64a()
	h.Write([]byte(key))
	r.mu.Lock()
	r.nontrivial[h.Sum64()] = struct{}{}
	r.mu.Unlock()
}

func (r *Recorder) Label(dim, value string) {
	if r == nil {
		return
	}
	r.mu.Lock()
	m, ok := r.labels[dim]
	if !ok {
		m = map[string]int{}
		r.labels[dim] = m
	}
	m[value]++
	r.mu.Unlock()
}

func (r *Recorder) LabelCount(dim, value string) int {
	if r == nil {
		return 0
	}
	r.mu.Lock()
	defer r.mu.Unlock()
	return r.labels[dim][value]
}

// Sample keeps the first few cases of each class, written out in full.
func (r *Recorder) Sample(class string, v any) {
	if r == nil {
		return
	}
	r.mu.Lock()
	defer r.mu.Unlock()
	if len(r.samples[class]) >= r.maxSamples {
		return
	}
	bz, err := json.Marshal(v)
	if err != nil {
		bz, _ = json.Marshal(fmt.Sprintf("%+v", v))
	}
	if len(bz) > 4000 {
		bz, _ = json.Marshal(string(bz[:4000]) + "...(truncated)")
	}
	r.samples[class] = append(r.samples[class], bz)
}

// Exclude counts a case the generator left out by construction (known finding, stated domain bound).
func (r *Recorder) Exclude(reason string) {
	if r == nil {
		return
	}
	r.mu.Lock()
	r.excluded[reason]++
	r.mu.Unlock()
}

func (r *Recorder) Note(format string, a ...any) {
	if r == nil {
		return
	}
	r.mu.Lock()
	r.notes = append(r.notes, fmt.Sprintf(format, a...))
	r.mu.Unlock()
}

// Require marks the run inconclusive (driver exit 2, never a violation) when a class the check
// depends on was generated fewer than min times.
func (r *Recorder) Require(dim, value string, min int) {
	if r == nil {
		return
	}
	if n := r.LabelCount(dim, value); n < min {
		r.mu.Lock()
		r.starved = append(r.starved, fmt.Sprintf("%s=%s: %d < %d", dim, value, n, min))
		r.mu.Unlock()
	}
}

// Fail records the failing case as a replay file (the last one written is the shrunk one) and
// fails the test.
func (r *Recorder) Fail(t interface{ Fatalf(string, ...any) }, c any, format string, a ...any) {
	msg := fmt.Sprintf(format, a...)
	if strings.HasPrefix(msg, "harness:") {
		// the harness could not do its own part (build a packet, set a state up): that says
		// nothing about the property. No case file is written, so the driver reports the run
		// as inconclusive (exit 2), never as a violation.
		t.Fatalf("HARNESS ERROR %s: %s\ncase: %s", r.propertyName(), msg, JSON(c))
		return
	}
	if path := os.Getenv("VERIF_CASEFILE"); path != "" && r != nil {
		doc := map[string]any{"property": r.Property, "test": r.Test, "case": c, "message": msg}
		bz, err := json.MarshalIndent(doc, "", " ")
		if err == nil {
			_ = os.WriteFile(path, bz, 0o644)
		}
	}
	t.Fatalf("VIOLATION %s: %s\ncase: %s", r.propertyName(), msg, JSON(c))
}

func (r *Recorder) propertyName() string {
	if r == nil {
		return "?"
	}
	return r.Property
}

func (r *Recorder) Flush() {
	if r == nil {
		return
	}
	path := os.Getenv("VERIF_OUT")
	if path == "" {
		return
	}
	r.mu.Lock()
	defer r.mu.Unlock()
	hashes := make([]uint64, 0, len(r.nontrivial))
	for h := range r.nontrivial {
		hashes = append(hashes, h)
	}
	sort.Slice(hashes, func(i, j int) bool { return hashes[i] < hashes[j] })
	buf := make([]byte, 8*len(hashes))
	for i, h := range hashes {
		binary.LittleEndian.PutUint64(buf[8*i:], h)
	}
	hashFile := path + ".hashes"
	_ = os.WriteFile(hashFile, buf, 0o644)
	sf := sideFile{
		Property: r.Property, Test: r.Test, Evals: r.evals, NonTrivial: len(hashes), HashFile: hashFile,
		Labels: r.labels, Samples: r.samples, Excluded: r.excluded, Starved: r.starved, Notes: r.notes,
	}
	bz, err := json.Marshal(sf)
	if err != nil {
		panic(err)
	}
	if err := os.WriteFile(path, bz, 0o644); err != nil {
		panic(err)
	}
}

// ---------------------------------------------------------------------------------------------
// Replay registry: every rapid-driven check registers a function that re-executes one serialised
// case through the same exec -> oracle code without rapid.

type ReplayFn func(raw json.RawMessage) error

var replayRegistry = map[string]ReplayFn{}

func RegisterReplay(test string, fn ReplayFn) { replayRegistry[test] = fn }

type ReplayDoc struct {
	Property string          `json:"property"`
	Test     string          `json:"test"`
	Case     json.RawMessage `json:"case"`
	Message  string          `json:"message,omitempty"`
}

// Replay runs one replay file; a non-nil error is a violation.
func Replay(path string) (ReplayDoc, error) {
	var doc ReplayDoc
	bz, err := os.ReadFile(path)
	if err != nil {
		return doc, fmt.Errorf("harness: %w", err)
	}
	if err := json.Unmarshal(bz, &doc); err != nil {
		return doc, fmt.Errorf("harness: %w", err)
	}
	fn, ok := replayRegistry[doc.Test]
	if !ok {
		return doc, fmt.Errorf("harness: no replay function registered for %q", doc.Test)
	}
	return doc, fn(doc.Case)
}
