package kit

import (
	"encoding/base64"
	"fmt"
	"strings"

	"pgregory.net/rapid"

	"verif/harness/memo"
)

// The JSON tree, its parser/printer and the well-formedness predicate live in the light package
// memo (it does not link the application, so that it can also be used by the native fuzz
// target); kit re-exports them.

type (
	JV      = memo.JV
	JKV     = memo.JKV
	Verdict = memo.Verdict
)

const (
	WellFormed = memo.WellFormed
	Malformed  = memo.Malformed
	Undecided  = memo.Undecided
)

func JRaw(s string) *JV                         { return memo.JRaw(s) }
func JStr(s string) *JV                         { return memo.JStr(s) }
func JNull() *JV                                { return memo.JNull() }
func ParseJSON(s string) (*JV, error)           { return memo.ParseJSON(s) }
func WellFormedMemo(s string) (Verdict, string) { return memo.WellFormedMemo(s) }
func URLCCTP() string                           { return memo.URLCCTP() }
func URLHyp() string                            { return memo.URLHyp() }
func URLInternal() string                       { return memo.URLInternal() }
func URLFee() string                            { return memo.URLFee() }

// node is a position in the tree: the value plus how to replace or delete it in its parent.
type node struct {
	path   string
	v      *JV
	parent *JV
	index  int // member index in parent.Obj or parent.Arr
	key    string
}

func collect(v *JV, path string, parent *JV, index int, key string, out *[]node) {
	*out = append(*out, node{path, v, parent, index, key})
	switch v.Kind {
	case memo.JObj:
		for i, kv := range v.Obj {
			collect(kv.V, path+"/"+kv.K, v, i, kv.K, out)
		}
	case memo.JArr:
		for i, e := range v.Arr {
			collect(e, fmt.Sprintf("%s/%d", path, i), v, i, "", out)
		}
	}
}

func (n node) replace(nv *JV) {
	if n.parent == nil {
		*n.v = *nv
		return
	}
	if n.parent.Kind == memo.JObj {
		n.parent.Obj[n.index].V = nv
	} else {
		n.parent.Arr[n.index] = nv
	}
}

func (n node) remove() {
	if n.parent == nil {
		return
	}
	if n.parent.Kind == memo.JObj {
		n.parent.Obj = append(append([]JKV{}, n.parent.Obj[:n.index]...), n.parent.Obj[n.index+1:]...)
	} else {
		n.parent.Arr = append(append([]*JV{}, n.parent.Arr[:n.index]...), n.parent.Arr[n.index+1:]...)
	}
}

// Mutation describes one applied structural change.
type Mutation struct {
	Kind string `json:"kind"`
	Path string `json:"path"`
}

var hostileNumbers = []string{
	"-1", "0", "1", "4294967295", "4294967296", "9223372036854775808", "18446744073709551616",
	"115792089237316195423570985008687907853269984665640564039457584007913129639935",
	"115792089237316195423570985008687907853269984665640564039457584007913129639936",
	"1.5", "1e3", "1e400", "-0", "007", "0x10",
}

var hostileStrings = []string{
	"", " ", "null", "0", "-1", "+5", "007", "0x10", "1_0", "1e3", "1.5",
	"115792089237316195423570985008687907853269984665640564039457584007913129639936",
	"\x00", "a\x00b", "\xff\xfe", "ACTION_FEE", "PROTOCOL_IBC", "noble1", "😀",
}

var typeURLs = []string{
	memo.URLCCTP(), memo.URLHyp(), memo.URLInternal(), memo.URLFee(),
	"/noble.orbiter.controller.action.v1.FeeAttributes",
	"/noble.orbiter.core.v1.Payload",
	"/noble.orbiter.core.v1.Forwarding",
	"/cosmos.bank.v1beta1.MsgSend",
	"/google.protobuf.Any",
	"/does.not.Exist",
	"noble.orbiter.controller.forwarding.v1.CCTPAttributes",
	"",
	"/",
}

// ExtraTypeURLs is filled by the test binary with every type URL registered in the application's
// interface registry (all interfaces: sdk.Msg, authz, gov content, ...): any of them resolves in
// the codec, none but the orbiter's own attribute types may be accepted in a payload.
var ExtraTypeURLs []string

var enumValues = []string{
	`0`, `1`, `2`, `3`, `4`, `5`, `6`, `-1`, `99`, `2147483647`, `2147483648`, `-2147483648`,
	`"PROTOCOL_UNSUPPORTED"`, `"PROTOCOL_IBC"`, `"PROTOCOL_CCTP"`, `"PROTOCOL_HYPERLANE"`, `"PROTOCOL_INTERNAL"`,
	`"ACTION_UNSUPPORTED"`, `"ACTION_FEE"`, `"ACTION_SWAP"`, `"protocol_cctp"`, `"1"`, `"2"`, `1.0`, `1e0`,
}

func b64(n int, fill byte) string {
	b := make([]byte, n)
	for i := range b {
		b[i] = fill
	}
	return base64.StdEncoding.EncodeToString(b)
}

var byteFieldValues = []string{
	b64(0, 0), b64(1, 1), b64(20, 2), b64(31, 3), b64(32, 0), b64(32, 4), b64(33, 5), b64(40, 6), b64(64, 7),
	"!!!notbase64", "AQ", "AQ=", "AQ==AQ==",
}

func nestedArrays(depth int) string {
	return strings.Repeat("[", depth) + strings.Repeat("]", depth)
}

func nestedObjects(depth int) string {
	return strings.Repeat(`{"a":`, depth) + "1" + strings.Repeat("}", depth)
}

// replacement values of the wrong JSON type
var wrongTypeValues = []string{
	`"x"`, `1`, `true`, `false`, `[]`, `{}`, `[null]`, `[[]]`, `[{}]`, `{"a":1}`, `[1,2]`, `""`, `0`,
}

func isNumericText(s string) bool {
	if s == "" {
		return false
	}
	for _, c := range s {
		if c < '0' || c > '9' {
			return false
		}
	}
	return true
}

// Mutate applies one structural mutation to the tree at a position drawn by rapid and reports it.
func Mutate(t *rapid.T, root *JV) Mutation {
	m := mutate1(t, root)
	// and, sometimes, the same tree with member names in the other spelling the codec reads
	if Chance(t, "mut/camel", 15) {
		if CamelKeys(t, "mut/camel", root) > 0 {
			m.Kind += "+camel-keys"
		}
	}
	return m
}

func mutate1(t *rapid.T, root *JV) Mutation {
	var nodes []node
	collect(root, "", nil, 0, "", &nodes)
	n := nodes[uniform(t, "mut/node", len(nodes))]

	kinds := []string{"null", "wrong-type", "delete", "hostile-string", "hostile-number"}
	switch n.v.Kind {
	case memo.JObj:
		kinds = append(kinds, "unknown-field", "unknown-field", "dup-key", "dup-key-other", "empty-object", "reorder")
	case memo.JArr:
		kinds = append(kinds, "append-null", "append-null", "elem-null", "dup-elem", "empty-array", "append-wrong")
	case memo.JString:
		kinds = append(kinds, "byte-field", "byte-field", "invalid-utf8", "long-string", "number-spelling")
		if isNumericText(n.v.Str) {
			kinds = append(kinds, "number-spelling", "number-spelling", "number-spelling")
		}
	case memo.JRawKind:
		if isNumericText(n.v.Str) {
			kinds = append(kinds, "number-spelling", "number-spelling")
		}
	}
	if n.v.Kind == memo.JObj {
		// a fee info: set the other member of its fee-type oneof as well
		for _, kv := range n.v.Obj {
			if kv.K == "basis_points" || kv.K == "amount" || kv.K == "basisPoints" {
				kinds = append(kinds, "oneof-sibling", "oneof-sibling", "oneof-sibling", "oneof-sibling")
				break
			}
		}
	}
	if n.key == "@type" {
		kinds = []string{"type-url", "type-url", "type-url", "delete", "null", "wrong-type", "foreign-type-bare", "foreign-type-bare"}
	}
	if n.key == "id" || n.key == "protocol_id" {
		kinds = []string{"enum", "enum", "enum", "delete", "null", "wrong-type", "hostile-string"}
	}
	if n.key == "max_fee" {
		kinds = append(kinds, "coin", "coin", "coin")
	}
	if n.parent == nil {
		kinds = []string{"extra-root-key", "extra-root-key", "root-rename", "root-wrap-array", "root-null", "dup-root", "deep-array", "deep-object", "unknown-field"}
	}
	kind := kinds[uniform(t, "mut/kind", len(kinds))]
	m := Mutation{Kind: kind, Path: n.path}

	switch kind {
	case "null":
		n.replace(JNull())
	case "wrong-type":
		n.replace(JRaw(pick(t, "mut/wrong", wrongTypeValues)))
	case "delete":
		if n.parent == nil {
			n.replace(JRaw("{}"))
		} else {
			n.remove()
		}
	case "number-spelling":
		// another spelling of a number, as a string and (where the text allows) as a bare token
		sp := NumberSpelling(t, "mut/num")
		if n.v.Kind == memo.JRawKind && chance(t, "mut/num/raw", 50) {
			n.replace(JRaw(strings.TrimSpace(sp)))
		} else {
			n.replace(JStr(sp))
		}
	case "hostile-string":
		n.replace(JStr(pick(t, "mut/hs", hostileStrings)))
	case "hostile-number":
		n.replace(JRaw(pick(t, "mut/hn", hostileNumbers)))
	case "unknown-field":
		n.v.Obj = append(n.v.Obj, JKV{pick(t, "mut/uf", []string{"unknown", "extra_field", "@type2", "Orbiter", "", "a\"b", "x\\y", "\"", "q\" in \"z"}), JRaw(pick(t, "mut/ufv", wrongTypeValues))})
	case "dup-key":
		if len(n.v.Obj) == 0 {
			n.v.Obj = append(n.v.Obj, JKV{"a", JRaw("1")}, JKV{"a", JRaw("1")})
		} else {
			kv := n.v.Obj[uniform(t, "mut/dk", len(n.v.Obj))]
			n.v.Obj = append(n.v.Obj, JKV{kv.K, kv.V.Clone()})
		}
	case "dup-key-other":
		if len(n.v.Obj) > 0 {
			kv := n.v.Obj[uniform(t, "mut/dk", len(n.v.Obj))]
			other := JRaw(pick(t, "mut/dkv", wrongTypeValues))
			if chance(t, "mut/dk/front", 50) {
				n.v.Obj = append([]JKV{{kv.K, other}}, n.v.Obj...)
			} else {
				n.v.Obj = append(n.v.Obj, JKV{kv.K, other})
			}
		}
	case "oneof-sibling":
		has := map[string]bool{}
		for _, kv := range n.v.Obj {
			has[kv.K] = true
		}
		var kv JKV
		switch {
		case !has["amount"]:
			kv = JKV{"amount", JRaw(pick(t, "mut/oneof/amount", []string{`{"value":"7"}`, `{"value":"1"}`, `null`, `{}`}))}
		case !has["basis_points"]:
			kv = JKV{pick(t, "mut/oneof/name", []string{"basis_points", "basisPoints"}), JRaw(pick(t, "mut/oneof/bps", []string{`{"value":100}`, `{"value":1}`, `null`, `{}`}))}
		default:
			kv = JKV{"basisPoints", JRaw(`{"value":5}`)}
		}
		if chance(t, "mut/oneof/front", 50) {
			n.v.Obj = append([]JKV{kv}, n.v.Obj...)
		} else {
			n.v.Obj = append(n.v.Obj, kv)
		}
	case "empty-object":
		n.v.Obj = nil
	case "reorder":
		if len(n.v.Obj) > 1 {
			n.v.Obj = append(n.v.Obj[1:], n.v.Obj[0])
		}
	case "append-null":
		n.v.Arr = append(n.v.Arr, JNull())
	case "elem-null":
		if len(n.v.Arr) > 0 {
			n.v.Arr[uniform(t, "mut/en", len(n.v.Arr))] = JNull()
		} else {
			n.v.Arr = append(n.v.Arr, JNull())
		}
	case "dup-elem":
		if len(n.v.Arr) > 0 {
			n.v.Arr = append(n.v.Arr, n.v.Arr[uniform(t, "mut/de", len(n.v.Arr))].Clone())
		}
	case "empty-array":
		n.v.Arr = nil
	case "append-wrong":
		n.v.Arr = append(n.v.Arr, JRaw(pick(t, "mut/aw", wrongTypeValues)))
	case "byte-field":
		n.replace(JStr(pick(t, "mut/bf", byteFieldValues)))
	case "invalid-utf8":
		n.replace(JStr(n.v.Str + "\xff\xfe\xfd"))
	case "long-string":
		n.replace(JStr(strings.Repeat("A", rapid.IntRange(33, 5000).Draw(t, "mut/ls"))))
	case "type-url":
		n.replace(JStr(pick(t, "mut/tu", typeURLs)))
	case "foreign-type-bare":
		// the whole attributes object becomes {"@type": <some registered type>} with no other
		// member, so that nothing but the type itself can be the reason to refuse it
		pool := typeURLs
		if len(ExtraTypeURLs) > 0 && chance(t, "mut/ftb/extra", 80) {
			pool = ExtraTypeURLs
		}
		url := pick(t, "mut/ftb", pool)
		if n.parent != nil && n.parent.Kind == memo.JObj {
			n.parent.Obj = []JKV{{K: "@type", V: JStr(url)}}
		} else {
			n.replace(JStr(url))
		}
	case "enum":
		n.replace(JRaw(pick(t, "mut/enum", enumValues)))
	case "coin":
		n.replace(JRaw(pick(t, "mut/coin", []string{
			`{"denom":"1","amount":"1"}`, `{"denom":"","amount":"1"}`, `{"denom":"uusdc","amount":"-1"}`,
			`{"denom":"uusdc"}`, `{"amount":"1"}`, `{}`, `{"denom":"uusdc","amount":"abc"}`, `{"denom":"uusdc","amount":""}`,
			`{"denom":"a","amount":"1"}`, `{"denom":"uusdc","amount":"115792089237316195423570985008687907853269984665640564039457584007913129639936"}`,
			`{"denom":"UUSDC!","amount":"1"}`, `null`, `"1uusdc"`,
		})))
	case "extra-root-key":
		kv := JKV{pick(t, "mut/rk", []string{"other", "forward", "wasm", "orbiter2", "Orbiter", ""}), JRaw(pick(t, "mut/rkv", wrongTypeValues))}
		if chance(t, "mut/rk/front", 50) {
			n.v.Obj = append([]JKV{kv}, n.v.Obj...)
		} else {
			n.v.Obj = append(n.v.Obj, kv)
		}
	case "root-rename":
		if len(n.v.Obj) > 0 {
			n.v.Obj[0].K = pick(t, "mut/rr", []string{"Orbiter", "ORBITER", "orbiter ", "orbit", ""})
		}
	case "root-wrap-array":
		c := n.v.Clone()
		n.replace(&JV{Kind: memo.JArr, Arr: []*JV{c}})
	case "root-null":
		n.replace(JRaw(pick(t, "mut/rn", []string{"null", `"orbiter"`, "1", "[]", `{"orbiter":null}`, `{"orbiter":{}}`, `{"orbiter":[]}`, `{"orbiter":"x"}`, `{"orbiter":1}`})))
	case "dup-root":
		if len(n.v.Obj) > 0 {
			n.v.Obj = append(n.v.Obj, JKV{n.v.Obj[0].K, n.v.Obj[0].V.Clone()})
		}
	case "deep-array":
		d := pick(t, "mut/depth", []int{50, 500, 9999, 10001, 20000})
		n.v.Obj = append(n.v.Obj, JKV{"deep", JRaw(nestedArrays(d))})
	case "deep-object":
		d := pick(t, "mut/depth", []int{50, 500, 9999, 10001, 20000})
		n.replace(JRaw(`{"orbiter":` + nestedObjects(d) + `}`))
	}
	return m
}

// MutateTargeted applies one of the mutants property C15 names explicitly: an unknown field in
// some object, a second root key, or an @type replaced by an unregistered / other-interface URL.
func MutateTargeted(t *rapid.T, root *JV) Mutation {
	var nodes []node
	collect(root, "", nil, 0, "", &nodes)
	switch Pick(t, "tm/kind", []string{"unknown-field", "extra-root-key", "type-url"}) {
	case "unknown-field":
		var objs []node
		for _, n := range nodes {
			if n.v.Kind == memo.JObj && n.parent != nil {
				objs = append(objs, n)
			}
		}
		n := objs[uniform(t, "tm/obj", len(objs))]
		n.v.Obj = append(n.v.Obj, JKV{Pick(t, "tm/uf", []string{"unknown", "extra_field", "memo", "Recipient", "a\"b", "x\\y", "q\" in \"z"}), JRaw(Pick(t, "tm/ufv", []string{`1`, `"x"`, `null`, `{}`, `[]`}))})
		return Mutation{Kind: "unknown-field", Path: n.path}
	case "extra-root-key":
		kv := JKV{Pick(t, "tm/rk", []string{"other", "forward", "wasm", "orbiter2", "Orbiter"}), JRaw(Pick(t, "tm/rkv", []string{`1`, `{}`, `null`, `"x"`}))}
		if Chance(t, "tm/front", 50) {
			root.Obj = append([]JKV{kv}, root.Obj...)
		} else {
			root.Obj = append(root.Obj, kv)
		}
		return Mutation{Kind: "extra-root-key", Path: ""}
	default:
		var urls []node
		for _, n := range nodes {
			if n.key == "@type" {
				urls = append(urls, n)
			}
		}
		n := urls[uniform(t, "tm/url", len(urls))]
		inAction := len(n.path) > 20 && n.path[:20] == "/orbiter/pre_actions"
		var options []string
		if inAction {
			options = []string{memo.URLCCTP(), memo.URLHyp(), memo.URLInternal(), "/does.not.Exist", "/cosmos.bank.v1beta1.MsgSend", "/noble.orbiter.core.v1.Payload"}
		} else {
			options = []string{memo.URLFee(), "/does.not.Exist", "/cosmos.bank.v1beta1.MsgSend", "/noble.orbiter.core.v1.Forwarding"}
		}
		n.replace(JStr(Pick(t, "tm/newurl", options)))
		return Mutation{Kind: "type-url", Path: n.path}
	}
}

// HostileActionList replaces the pre_actions of a memo tree by a list of 2-4 actions with
// hostile identifiers and attributes (several of them invalid for different reasons at once).
func HostileActionList(t *rapid.T, root *JV) {
	var orb *JV
	for _, kv := range root.Obj {
		if kv.K == "orbiter" {
			orb = kv.V
		}
	}
	if orb == nil || orb.Kind != memo.JObj {
		return
	}
	n := 2 + uniform(t, "hal/n", 3)
	list := &JV{Kind: memo.JArr}
	for i := 0; i < n; i++ {
		l := fmt.Sprintf("hal/%d", i)
		a := &JV{Kind: memo.JObj}
		id := Pick(t, l+"/id", []string{`"ACTION_FEE"`, `"ACTION_SWAP"`, `1`, `2`, `0`, `3`, `7`, `8`, `-1`, `"ACTION_UNSUPPORTED"`, `99`})
		if !Chance(t, l+"/noid", 10) {
			a.Obj = append(a.Obj, JKV{"id", JRaw(id)})
		}
		switch Pick(t, l+"/attr", []string{"fee", "fee", "absent", "null", "wrong-type", "empty-fee", "bad-fee"}) {
		case "fee":
			a.Obj = append(a.Obj, JKV{"attributes", JRaw(`{"@type":"` + memo.URLFee() + `","fees_info":[{"recipient":"noble1nnydkwkkm05nqjl4fn6d2k4p2t0kpgl37mlt7v","basis_points":{"value":10}}]}`)})
		case "absent":
		case "null":
			a.Obj = append(a.Obj, JKV{"attributes", JNull()})
		case "wrong-type":
			a.Obj = append(a.Obj, JKV{"attributes", JRaw(`{"@type":"` + memo.URLInternal() + `","recipient":"noble1nnydkwkkm05nqjl4fn6d2k4p2t0kpgl37mlt7v"}`)})
		case "empty-fee":
			a.Obj = append(a.Obj, JKV{"attributes", JRaw(`{"@type":"` + memo.URLFee() + `"}`)})
		case "bad-fee":
			a.Obj = append(a.Obj, JKV{"attributes", JRaw(`{"@type":"` + memo.URLFee() + `","fees_info":[{"recipient":"x","basis_points":{"value":0}},{"recipient":"","amount":{"value":"-1"}}]}`)})
		}
		list.Arr = append(list.Arr, a)
	}
	for i, kv := range orb.Obj {
		if kv.K == "pre_actions" {
			orb.Obj[i].V = list
			return
		}
	}
	orb.Obj = append(orb.Obj, JKV{"pre_actions", list})
}

// TextMutation changes the memo as text, outside its JSON structure: trailing or leading bytes,
// whitespace, a byte-order mark, comments, concatenated documents.
func TextMutation(t *rapid.T, memo string) (string, string) {
	kind := Pick(t, "txt/kind", []string{"trailing", "trailing", "trailing", "leading", "whitespace", "bom", "comment", "concat", "truncate"})
	switch kind {
	case "trailing":
		return memo + Pick(t, "txt/trail", []string{"x", "{}", "}", "]", `{"orbiter":{}}`, `{"forward":{"receiver":"x"}}`, "[1,2,3]", "null", "0", `"s"`, "\n" + memo, ",", "\x00", "//c"}), kind
	case "leading":
		return Pick(t, "txt/lead", []string{"x", "{}", "[", "null", "\x00", "/*c*/"}) + memo, kind
	case "whitespace":
		return Pick(t, "txt/ws1", []string{" ", "\n", "\t", "\r\n", ""}) + memo + Pick(t, "txt/ws2", []string{" ", "\n", "\t\t", "\r\n"}), kind
	case "bom":
		return "\xef\xbb\xbf" + memo, kind
	case "comment":
		return strings.Replace(memo, "{", "{/*c*/", 1), kind
	case "concat":
		return memo + memo, kind
	default:
		if len(memo) < 2 {
			return memo, kind
		}
		return memo[:1+uniform(t, "txt/cut", len(memo)-1)], kind
	}
}

// OneofSibling sets, in one fee info of the memo tree, the other member of the fee-type oneof as
// well (with a value, with null, or with an empty object). Returns false when the memo has no fee
// info.
func OneofSibling(t *rapid.T, root *JV) bool {
	var nodes []node
	collect(root, "", nil, 0, "", &nodes)
	var infos []node
	for _, n := range nodes {
		if n.v.Kind != memo.JObj {
			continue
		}
		for _, kv := range n.v.Obj {
			if kv.K == "basis_points" || kv.K == "amount" {
				infos = append(infos, n)
				break
			}
		}
	}
	if len(infos) == 0 {
		return false
	}
	n := infos[uniform(t, "oneof/info", len(infos))]
	has := map[string]bool{}
	for _, kv := range n.v.Obj {
		has[kv.K] = true
	}
	var kv JKV
	if !has["amount"] {
		kv = JKV{"amount", JRaw(Pick(t, "oneof/amount", []string{`null`, `{"value":"7"}`, `{}`, `null`}))}
	} else {
		kv = JKV{Pick(t, "oneof/name", []string{"basis_points", "basisPoints"}), JRaw(Pick(t, "oneof/bps", []string{`null`, `{"value":100}`, `{}`, `null`}))}
	}
	if Chance(t, "oneof/front", 50) {
		n.v.Obj = append([]JKV{kv}, n.v.Obj...)
	} else {
		n.v.Obj = append(n.v.Obj, kv)
	}
	if Chance(t, "oneof/camel", 40) {
		CamelKeys(t, "oneof/camel", root)
	}
	return true
}

// CamelKeys rewrites some member names of the memo tree (anywhere, about half of those that have
// one) to their lowerCamel spelling, which the proto-JSON codec reads as the same field: the
// meaning of the memo does not change, only the text every textual pre-check sees. Returns the
// number of names rewritten.
func CamelKeys(t *rapid.T, label string, root *JV) int {
	n := 0
	var walk func(v *JV)
	walk = func(v *JV) {
		if v == nil {
			return
		}
		switch v.Kind {
		case memo.JObj:
			for i := range v.Obj {
				k := v.Obj[i].K
				if strings.Contains(k, "_") && !strings.HasPrefix(k, "@") && Chance(t, fmt.Sprintf("%s/%d", label, n), 50) {
					parts := strings.Split(k, "_")
					for j := 1; j < len(parts); j++ {
						if parts[j] != "" {
							parts[j] = strings.ToUpper(parts[j][:1]) + parts[j][1:]
						}
					}
					v.Obj[i].K = strings.Join(parts, "")
					n++
				}
				walk(v.Obj[i].V)
			}
		case memo.JArr:
			for _, e := range v.Arr {
				walk(e)
			}
		}
	}
	walk(root)
	return n
}
