// Package kit holds what the property checks share: the structured case types (plain data, JSON
// round-trippable so that a shrunk failure is a replay file), the builders that turn a case into
// packet bytes through orbiter's public constructors, the reference model, the rapid generators
// and the evidence recorder.
package kit

import (
	"encoding/json"
	"fmt"
	"math/big"

	sdkmath "cosmossdk.io/math"
	"github.com/cosmos/cosmos-sdk/codec"
	cdctypes "github.com/cosmos/cosmos-sdk/codec/types"
	sdk "github.com/cosmos/cosmos-sdk/types"
	"github.com/cosmos/gogoproto/proto"
	channeltypes "github.com/cosmos/ibc-go/v8/modules/core/04-channel/types"

	orbitertypes "github.com/noble-assets/orbiter/v2/types"
	actiontypes "github.com/noble-assets/orbiter/v2/types/controller/action"
	forwardingtypes "github.com/noble-assets/orbiter/v2/types/controller/forwarding"
	"github.com/noble-assets/orbiter/v2/types/core"

	"verif/harness/world"
)

// Fee is one entry of a fee action: basis points when Fixed is empty, a fixed amount otherwise.
type Fee struct {
	Recipient string `json:"recipient"`
	Bps       uint32 `json:"bps,omitempty"`
	Fixed     string `json:"fixed,omitempty"`
}

func (f Fee) IsFixed() bool { return f.Fixed != "" }

// Action is one pre-action. Kind "fee" uses Fees; kind "swap" (LAB world only) has no parameters.
type Action struct {
	Kind string `json:"kind"`
	Fees []Fee  `json:"fees,omitempty"`
}

// Route is the forwarding part of a payload.
type Route struct {
	Kind string `json:"kind"` // "cctp" | "hyp" | "internal"

	// cctp and hyp
	Domain uint32 `json:"domain,omitempty"`
	// cctp
	MintRecipient []byte `json:"mint_recipient,omitempty"`
	DestCaller    []byte `json:"dest_caller,omitempty"`
	// hyp
	TokenID      []byte `json:"token_id,omitempty"`
	Recipient    []byte `json:"recipient,omitempty"`
	HookID       []byte `json:"hook_id,omitempty"`
	HookMeta     string `json:"hook_meta,omitempty"`
	GasLimit     string `json:"gas_limit,omitempty"` // decimal; "" = zero
	MaxFeeDenom  string `json:"max_fee_denom,omitempty"`
	MaxFeeAmount string `json:"max_fee_amount,omitempty"`
	// internal
	To string `json:"to,omitempty"`

	Passthrough []byte `json:"passthrough,omitempty"`

	// Overrides used for the identifier/attribute-type matrix (C05) and for hostile payloads
	// (C14): the protocol identifier written into the forwarding, and the attribute type packed
	// into it ("cctp" | "hyp" | "internal" | "fee"), when they differ from Kind.
	ProtoID  *int32 `json:"proto_id,omitempty"`
	AttrKind string `json:"attr_kind,omitempty"`
}

// Transfer is one incoming ICS-20 packet. With RawMemo/RawDenom/RawData unset it is an orbiter
// transfer that is well-formed by construction; the Raw fields override the corresponding part of
// the packet for malformed and foreign traffic.
type Transfer struct {
	Channel  int    `json:"channel"`
	Seq      uint64 `json:"seq,omitempty"`
	Denom    string `json:"denom"`  // Noble-side denomination
	Amount   string `json:"amount"` // decimal
	Sender   string `json:"sender,omitempty"`
	Receiver string `json:"receiver,omitempty"` // "" = canonical orbiter address

	Actions []Action `json:"actions,omitempty"`
	Route   Route    `json:"route"`

	RawMemo   *string `json:"raw_memo,omitempty"`   // memo used verbatim
	RawDenom  *string `json:"raw_denom,omitempty"`  // packet denom used verbatim
	RawAmount *string `json:"raw_amount,omitempty"` // packet amount used verbatim
	RawData   []byte  `json:"raw_data,omitempty"`   // whole packet data used verbatim
	// Packet identifiers, when they differ from the harness channel's.
	SrcPort    *string `json:"src_port,omitempty"`
	SrcChannel *string `json:"src_channel,omitempty"`
	DstChannel *string `json:"dst_channel,omitempty"`
}

func (t Transfer) AmountInt() *big.Int {
	v, ok := new(big.Int).SetString(t.Amount, 10)
	if !ok {
		return new(big.Int)
	}
	return v
}

func (t Transfer) ReceiverString() string {
	if t.Receiver == "" {
		return world.OrbiterAddr.String()
	}
	return t.Receiver
}

func (t Transfer) SenderString() string {
	if t.Sender == "" {
		return world.ForeignSender
	}
	return t.Sender
}

// BuildForwarding goes through the module's public constructors, so it fails for attribute values
// the constructors refuse.
func BuildForwarding(r Route) (*core.Forwarding, error) {
	switch r.Kind {
	case "cctp":
		return forwardingtypes.NewCCTPForwarding(r.Domain, r.MintRecipient, r.DestCaller, r.Passthrough)
	case "hyp":
		gas := sdkmath.ZeroInt()
		if r.GasLimit != "" {
			g, ok := sdkmath.NewIntFromString(r.GasLimit)
			if !ok {
				return nil, fmt.Errorf("bad gas limit %q", r.GasLimit)
			}
			gas = g
		}
		maxFee := sdk.Coin{Denom: r.MaxFeeDenom, Amount: sdkmath.ZeroInt()}
		if r.MaxFeeAmount != "" {
			a, ok := sdkmath.NewIntFromString(r.MaxFeeAmount)
			if !ok {
				return nil, fmt.Errorf("bad max fee amount %q", r.MaxFeeAmount)
			}
			maxFee.Amount = a
		}
		return forwardingtypes.NewHyperlaneForwarding(r.TokenID, r.Domain, r.Recipient, r.HookID, r.HookMeta, gas, maxFee, r.Passthrough)
	case "internal":
		f, err := forwardingtypes.NewInternalForwarding(r.To)
		if err != nil {
			return nil, err
		}
		f.PassthroughPayload = r.Passthrough
		return f, nil
	default:
		return nil, fmt.Errorf("unknown route kind %q", r.Kind)
	}
}

// BuildFeeInfos builds the entries without validation (so that invalid fee lists can be
// serialised too); BuildAction validates through the constructors unless raw is set.
func BuildFeeInfos(fees []Fee) []*actiontypes.FeeInfo {
	out := make([]*actiontypes.FeeInfo, 0, len(fees))
	for _, f := range fees {
		fi := &actiontypes.FeeInfo{Recipient: f.Recipient}
		if f.IsFixed() {
			fi.FeeType = &actiontypes.FeeInfo_Amount_{Amount: &actiontypes.FeeInfo_Amount{Value: f.Fixed}}
		} else {
			fi.FeeType = &actiontypes.FeeInfo_BasisPoints_{BasisPoints: &actiontypes.FeeInfo_BasisPoints{Value: f.Bps}}
		}
		out = append(out, fi)
	}
	return out
}

// BuildAction builds one action. With strict it goes through NewFeeAction (validating); without
// it the attributes are packed as they are, which is how a hostile sender would encode them.
func BuildAction(a Action, strict bool) (*core.Action, error) {
	switch a.Kind {
	case "fee":
		infos := BuildFeeInfos(a.Fees)
		if strict {
			return actiontypes.NewFeeAction(infos...)
		}
		act := &core.Action{Id: core.ACTION_FEE}
		if err := act.SetAttributes(&actiontypes.FeeAttributes{FeesInfo: infos}); err != nil {
			return nil, err
		}
		return act, nil
	case "swap":
		// The LAB world's test controller takes its (empty) parameters as FeeAttributes: the
		// only registered implementation of the ActionAttributes interface.
		act := &core.Action{Id: core.ACTION_SWAP}
		if err := act.SetAttributes(&actiontypes.FeeAttributes{}); err != nil {
			return nil, err
		}
		return act, nil
	default:
		return nil, fmt.Errorf("unknown action kind %q", a.Kind)
	}
}

// BuildMemo serialises the payload of a transfer to the JSON memo.
func BuildMemo(cdc codec.Codec, t Transfer, strict bool) (string, error) {
	if t.RawMemo != nil {
		return *t.RawMemo, nil
	}
	var fw *core.Forwarding
	var err error
	if strict {
		fw, err = BuildForwarding(t.Route)
	} else {
		fw, err = BuildForwardingLoose(t.Route)
	}
	if err != nil {
		return "", fmt.Errorf("forwarding: %w", err)
	}
	var acts []*core.Action
	for _, a := range t.Actions {
		act, err := BuildAction(a, strict)
		if err != nil {
			return "", fmt.Errorf("action: %w", err)
		}
		acts = append(acts, act)
	}
	var pw *core.PayloadWrapper
	if strict {
		pw, err = core.NewPayloadWrapper(fw, acts...)
		if err != nil {
			return "", fmt.Errorf("payload: %w", err)
		}
	} else {
		pw = &core.PayloadWrapper{Orbiter: &core.Payload{Forwarding: fw, PreActions: acts}}
	}
	bz, err := orbitertypes.MarshalJSON(cdc, pw)
	if err != nil {
		return "", fmt.Errorf("marshal: %w", err)
	}
	return string(bz), nil
}

// BuildPacket turns a transfer into the IBC packet delivered to the transfer stack.
func BuildPacket(cdc codec.Codec, t Transfer, strict bool) (channeltypes.Packet, error) {
	var data []byte
	if t.RawData != nil {
		data = t.RawData
	} else {
		memo, err := BuildMemo(cdc, t, strict)
		if err != nil {
			return channeltypes.Packet{}, err
		}
		denom := world.ReturnDenom(t.Channel, t.Denom)
		if t.RawDenom != nil {
			denom = *t.RawDenom
		}
		amount := t.Amount
		if t.RawAmount != nil {
			amount = *t.RawAmount
		}
		data = world.FTData{
			Denom:    denom,
			Amount:   amount,
			Sender:   t.SenderString(),
			Receiver: t.ReceiverString(),
			Memo:     memo,
		}.Bytes()
	}
	p := world.Packet(t.Channel, t.Seq+1, data)
	if t.SrcPort != nil {
		p.SourcePort = *t.SrcPort
	}
	if t.SrcChannel != nil {
		p.SourceChannel = *t.SrcChannel
	}
	if t.DstChannel != nil {
		p.DestinationChannel = *t.DstChannel
	}
	return p, nil
}

// JSON renders any case for evidence samples and replay files.
func JSON(v any) string {
	bz, err := json.Marshal(v)
	if err != nil {
		return fmt.Sprintf("<unmarshalable: %v>", err)
	}
	return string(bz)
}

// BuildForwardingLoose packs the attributes exactly as given, without the validating
// constructors: this is what a hostile sender can put on the wire.
func BuildForwardingLoose(r Route) (*core.Forwarding, error) {
	kind := r.Kind
	if r.AttrKind != "" {
		kind = r.AttrKind
	}
	var attr proto.Message
	var id core.ProtocolID
	switch r.Kind {
	case "cctp":
		id = core.PROTOCOL_CCTP
	case "hyp":
		id = core.PROTOCOL_HYPERLANE
	case "internal":
		id = core.PROTOCOL_INTERNAL
	}
	switch kind {
	case "cctp":
		attr = &forwardingtypes.CCTPAttributes{DestinationDomain: r.Domain, MintRecipient: r.MintRecipient, DestinationCaller: r.DestCaller}
	case "hyp":
		a := &forwardingtypes.HypAttributes{
			TokenId: r.TokenID, DestinationDomain: r.Domain, Recipient: r.Recipient, CustomHookId: r.HookID,
			CustomHookMetadata: r.HookMeta, GasLimit: sdkmath.ZeroInt(), MaxFee: sdk.Coin{Denom: r.MaxFeeDenom, Amount: sdkmath.ZeroInt()},
		}
		if r.GasLimit != "" {
			if g, ok := sdkmath.NewIntFromString(r.GasLimit); ok {
				a.GasLimit = g
			}
		}
		if r.MaxFeeAmount != "" {
			if g, ok := sdkmath.NewIntFromString(r.MaxFeeAmount); ok {
				a.MaxFee.Amount = g
			}
		}
		attr = a
	case "internal":
		attr = &forwardingtypes.InternalAttributes{Recipient: r.To}
	case "fee":
		attr = &actiontypes.FeeAttributes{}
	default:
		return nil, fmt.Errorf("unknown attribute kind %q", kind)
	}
	if r.ProtoID != nil {
		id = core.ProtocolID(*r.ProtoID)
	}
	anyv, err := cdctypes.NewAnyWithValue(attr)
	if err != nil {
		return nil, err
	}
	return &core.Forwarding{ProtocolId: id, Attributes: anyv, PassthroughPayload: r.Passthrough}, nil
}

// BuildPayload builds the payload wrapper of a transfer through the module's constructors.
func BuildPayload(t Transfer) (*core.PayloadWrapper, error) {
	fw, err := BuildForwarding(t.Route)
	if err != nil {
		return nil, err
	}
	var acts []*core.Action
	for _, a := range t.Actions {
		act, err := BuildAction(a, true)
		if err != nil {
			return nil, err
		}
		acts = append(acts, act)
	}
	return core.NewPayloadWrapper(fw, acts...)
}
