package kit

import (
	"testing"

	"verif/harness/world"
)

func TestSmoke(t *testing.T) {
	w, err := world.New(world.Options{})
	if err != nil {
		t.Fatal(err)
	}
	cases := []Transfer{
		{Channel: 0, Denom: world.Uusdc, Amount: "1000000",
			Actions: []Action{{Kind: "fee", Fees: []Fee{{Recipient: world.Addr("alice").String(), Bps: 100}}}},
			Route:   Route{Kind: "cctp", Domain: 0, MintRecipient: make32(1), DestCaller: make32(2)}},
		{Channel: 1, Denom: world.Ufoo, Amount: "777",
			Route: Route{Kind: "hyp", Domain: 1, TokenID: w.HypToken[world.Ufoo], Recipient: make32(3)}},
		{Channel: 2, Denom: world.Gamm, Amount: "5",
			Route: Route{Kind: "internal", To: world.Addr("bob").String()}},
		{Channel: 0, Denom: world.Uhuge, Amount: world.MaxUint256.String(),
			Route: Route{Kind: "internal", To: world.Addr("bob").String()}},
	}
	for _, c := range cases {
		ctx := w.Branch()
		p, err := BuildPacket(w.Cdc, c, true)
		if err != nil {
			t.Fatal(err)
		}
		before := w.Ledger(ctx)
		out := world.Recv(ctx, w.Stack, p)
		after := w.Ledger(ctx)
		t.Logf("case %s\n  -> %s\n  delta %s", JSON(c), out.String(), world.Diff(before, after))
		t.Logf("  stats %s", w.OrbiterGenesis(ctx))
	}
}

func make32(b byte) []byte {
	out := make([]byte, 32)
	for i := range out {
		out[i] = b
	}
	return out
}
