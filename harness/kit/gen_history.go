package kit

import (
	"fmt"
	"strings"

	"pgregory.net/rapid"

	"verif/harness/world"
)

// History generation. A history is drawn up front as plain data (so that it shrinks as one value
// and is its own replay file); identifiers come from small pools so that steps collide with each
// other (pausing what a later transfer uses, unpausing what is paused, ...).

var (
	protoPool    = []string{"PROTOCOL_CCTP", "PROTOCOL_HYPERLANE", "PROTOCOL_INTERNAL", "PROTOCOL_IBC"}
	badProtoPool = []string{"PROTOCOL_UNSUPPORTED", "PROTOCOL_BOGUS", "", "2", "protocol_cctp"}
	cpPool       = map[string][]string{
		// the domains of the environment several times over, and the boundaries of the 32-bit range
		"PROTOCOL_CCTP":      {"0", "1", "2", "3", "5", "9", "0", "1", "2", "3", "5", "2147483647", "2147483648", "4294967295"},
		"PROTOCOL_HYPERLANE": {"1", "2", "7", "3", "1", "2", "7", "2147483648", "4294967295"},
		"PROTOCOL_INTERNAL":  {"noble", "x"},
		"PROTOCOL_IBC":       {"channel-0", "channel-1", "channel-0", "channel-1", "channel-4294967296", "channel-18446744073709551615"},
	}
	// Clearly invalid counterparty ids for every protocol but INTERNAL (which accepts any
	// non-empty string up to the length limit).
	badCpPool    = []string{"", "abc", "-", "1.5", "channel-x", strings.Repeat("9", 33)}
	actionPool   = []string{"ACTION_FEE", "ACTION_SWAP"}
	badActPool   = []string{"ACTION_UNSUPPORTED", "ACTION_BOGUS", "", "1"}
	foreignPool  = []string{"alice", "bob"}
	paramsPool   = []uint32{0, 0, 1, 2, 8, 64, 1000, 65536, 4294967295}
	adminKindAll = []string{"pause_protocol", "unpause_protocol", "pause_cc", "unpause_cc", "pause_action", "unpause_action", "update_params"}
)

type AdminOpt struct {
	Kinds []string
	// NoLenientIds keeps counterparty ids out of the region where property C20 (not C08) decides:
	// strings that parse as integers only under a lenient reading ("05", "+5", "-1").
	ForeignSignerPct int
	InvalidPct       int
}

func GenSigner(t *rapid.T, foreignPct int) string {
	if !chance(t, "signer/foreign", foreignPct) {
		return ""
	}
	switch pick(t, "signer/class", []string{"user", "user", "orbiter", "empty", "garbage", "dust"}) {
	case "user":
		return world.Addr(pick(t, "signer/user", foreignPool)).String()
	case "orbiter":
		return world.OrbiterAddr.String()
	case "empty":
		return " "
	case "dust":
		return world.DustAddr.String()
	default:
		return "garbage"
	}
}

func GenAdmin(t *rapid.T, opt AdminOpt) Admin {
	kinds := opt.Kinds
	if len(kinds) == 0 {
		kinds = adminKindAll
	}
	a := Admin{Kind: pick(t, "admin/kind", kinds)}
	a.Signer = GenSigner(t, opt.ForeignSignerPct)
	invalid := chance(t, "admin/invalid", opt.InvalidPct)
	switch a.Kind {
	case "pause_protocol", "unpause_protocol":
		if invalid {
			a.Protocol = pick(t, "admin/badproto", badProtoPool)
		} else {
			a.Protocol = pick(t, "admin/proto", protoPool)
		}
	case "pause_cc", "unpause_cc":
		a.Protocol = pick(t, "admin/proto", protoPool)
		if invalid && chance(t, "admin/badproto?", 30) {
			a.Protocol = pick(t, "admin/badproto", badProtoPool)
		}
		pool := cpPool[a.Protocol]
		if pool == nil {
			pool = cpPool["PROTOCOL_CCTP"]
		}
		shape := pick(t, "admin/batch", []string{"one", "one", "one", "few", "few", "dup", "empty", "100", "101"})
		switch shape {
		case "one":
			a.Ids = []string{pick(t, "admin/id", pool)}
		case "few":
			n := rapid.IntRange(2, 4).Draw(t, "admin/n")
			seen := map[string]bool{}
			for i := 0; i < n; i++ {
				id := pick(t, fmt.Sprintf("admin/id%d", i), pool)
				if !seen[id] {
					a.Ids = append(a.Ids, id)
					seen[id] = true
				}
			}
		case "dup":
			id := pick(t, "admin/id", pool)
			a.Ids = []string{id, pick(t, "admin/id2", pool), id}
		case "empty":
			a.Ids = nil
		case "100", "101":
			n := 100
			if shape == "101" {
				n = 101
			}
			// distinct canonical ids for CCTP/Hyperlane, distinct free-form ones otherwise
			for i := 0; i < n; i++ {
				switch a.Protocol {
				case "PROTOCOL_IBC":
					a.Ids = append(a.Ids, fmt.Sprintf("channel-%d", 100+i))
				case "PROTOCOL_INTERNAL":
					a.Ids = append(a.Ids, fmt.Sprintf("id-%d", i))
				default:
					a.Ids = append(a.Ids, fmt.Sprintf("%d", 100+i))
				}
			}
		}
		if invalid && len(a.Ids) > 0 && a.Protocol != "PROTOCOL_INTERNAL" {
			a.Ids[uniform(t, "admin/badpos", len(a.Ids))] = pick(t, "admin/badid", badCpPool)
		}
	case "pause_action", "unpause_action":
		if invalid {
			a.Action = pick(t, "admin/badaction", badActPool)
		} else {
			a.Action = pick(t, "admin/action", actionPool)
		}
	case "update_params":
		a.MaxPassthrough = pick(t, "admin/params", paramsPool)
	}
	return a
}

type EnvOpt struct {
	Kinds []string
}

var envKindAll = []string{"deposit", "deposit", "deposit", "reescrow", "reescrow", "ftf_pause", "ftf_unpause", "blacklist", "unblacklist", "burn_limit",
	"cctp_pause_burn", "cctp_unpause_burn", "cctp_pause_msgs", "cctp_unpause_msgs", "hyp_unenroll", "hyp_enroll", "next_block", "next_block", "send_disable", "send_enable", "upgrade", "exec_mode", "exec_mode", "mint_to_orbiter"}

func GenEnv(t *rapid.T, opt EnvOpt) Env {
	kinds := opt.Kinds
	if len(kinds) == 0 {
		kinds = envKindAll
	}
	e := Env{Kind: pick(t, "env/kind", kinds)}
	switch e.Kind {
	case "deposit":
		e.User = pick(t, "env/user", PlainUsers)
		e.Denom = pick(t, "env/denom", world.EscrowDenoms)
		if world.SynthDenom != "" && chance(t, "env/synthetic", 8) {
			e.Denom = world.SynthDenom // synthetic Hyperlane coins sent to the orbiter account
		}
		e.Amount = pick(t, "env/amount", []string{"1", "7", "1000", "999999999"})
		if Chance(t, "env/whale", 12) {
			// amounts around and beyond the 64-bit boundary, from an account that holds them
			e.User = "whale"
			e.Amount = pick(t, "env/bigamount", []string{"9223372036854775807", "9223372036854775808", "18446744073709551616", "340282366920938463463374607431768211456"})
		}
	case "reescrow":
		e.User = pick(t, "env/user", PlainUsers)
		e.Channel = uniform(t, "env/channel", world.NumChannels)
		e.Denom = pick(t, "env/denom", AllDenoms)
		if e.Denom == world.Uhuge {
			e.Channel = 0
		}
		e.Amount = "all"
	case "blacklist", "unblacklist":
		e.Target = world.Addr(pick(t, "env/target", []string{"alice", "bob", "carol"})).String()
		if chance(t, "env/target/orbiter", 15) {
			e.Target = world.OrbiterAddr.String()
		}
	case "mint_to_orbiter":
		e.Denom = world.SwapDenom
		e.Amount = pick(t, "env/mint", []string{"1000", "1000000"})
	case "exec_mode":
		e.Amount = pick(t, "env/execmode", []string{"2", "2", "7", "7", "0", "1", "3", "4"})
	case "upgrade":
		e.Amount = "1"
	case "send_disable", "send_enable":
		e.Denom = pick(t, "env/send/denom", []string{world.Uusdc, world.Ufoo, world.Gamm})
	case "next_block":
		e.Amount = pick(t, "env/blocks", []string{"1", "1", "2", "1000", "4294967296"})
	case "burn_limit":
		e.Amount = pick(t, "env/limit", []string{"1000000000", "1000", "1"})
	case "hyp_unenroll", "hyp_enroll":
		e.Denom = pick(t, "env/hyp/denom", world.HypDenoms)
		e.Amount = fmt.Sprint(pick(t, "env/hyp/domain", world.HypDomains))
	}
	return e
}

type HistOpt struct {
	MinSteps, MaxSteps int
	// Weights of the step kinds (relative).
	PacketW, AdminW, EnvW int
	Packet                func(t *rapid.T) Transfer
	Admin                 AdminOpt
	Env                   EnvOpt
}

func GenHistory(t *rapid.T, opt HistOpt) History {
	total := opt.PacketW + opt.AdminW + opt.EnvW
	step := rapid.Custom(func(t *rapid.T) Step {
		x := uniform(t, "step/kind", total)
		switch {
		case x < opt.PacketW:
			tr := opt.Packet(t)
			return Step{Packet: &tr}
		case x < opt.PacketW+opt.AdminW:
			a := GenAdmin(t, opt.Admin)
			return Step{Admin: &a}
		default:
			e := GenEnv(t, opt.Env)
			return Step{Env: &e}
		}
	})
	// rapid's slice lengths cluster a few elements above the minimum; a share of the histories
	// is forced to be long.
	min := opt.MinSteps
	if Chance(t, "history/long", 30) && opt.MaxSteps*2/3 > min {
		min = opt.MaxSteps * 2 / 3
	}
	return rapid.SliceOfN(step, min, opt.MaxSteps).Draw(t, "history")
}
