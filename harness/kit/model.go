package kit

import (
	"fmt"
	"math/big"
	"regexp"
	"sort"
	"strconv"

	sdk "github.com/cosmos/cosmos-sdk/types"

	"verif/harness/world"
)

// Reference model. It is written against the property statements (fees, running coin, pause sets,
// statistics ledger, expected ledger delta), uses math/big only, and never calls orbiter code.

var (
	big10000 = big.NewInt(10000)
	two256   = new(big.Int).Lsh(big.NewInt(1), 256)
	decimal  = regexp.MustCompile(`^[0-9]+$`)
)

const (
	MaxFeeEntries = 5
	MaxPauseBatch = 100
)

// Credit is one bank credit the model expects.
type Credit struct {
	Addr   string
	Amount *big.Int
}

// FeeVerdict is the model's reading of one fee action applied to amount A.
type FeeVerdict struct {
	// Refuse is true when the property statement lists a reason to refuse the transfer.
	Refuse bool
	Reason string
	// DontCare is true when the statement does not decide acceptance (see the reasons below);
	// if the implementation accepts, Credits/Total/Remaining still say what exactness demands.
	DontCare       bool
	DontCareReason string
	// AmbiguousValue is true when an entry's amount is written in a spelling that reads as two
	// different numbers in base 10 and in Go's base-0 syntax ("0040" is 40 or octal 32): the
	// statement does not say which is "the stated amount", so exactness is only demanded in the
	// form "what was credited is what was deducted".
	AmbiguousValue bool
	Credits        []Credit // one per entry with a non-zero fee, in list order
	Total          *big.Int
	Remaining      *big.Int
}

// ParseFixed reads a fixed fee amount. ok=false means "not a positive integer" in the plain sense.
// canonical=false marks spellings that Go's base-0 integer syntax accepts but that are not plain
// decimals ("+5", "007", "0x10", "1_0"): the statement does not say how those are read.
func ParseFixed(s string) (v *big.Int, ok bool, canonical bool) {
	if decimal.MatchString(s) {
		v, _ = new(big.Int).SetString(s, 10)
		canonical = len(s) == 1 || s[0] != '0'
		return v, v.Sign() > 0, canonical
	}
	if len(s) > 1 && s[0] == '-' && decimal.MatchString(s[1:]) && (len(s) == 2 || s[1] != '0') {
		// a plain negative decimal: clearly not a positive integer
		v, _ = new(big.Int).SetString(s, 10)
		return v, false, true
	}
	if x, good := new(big.Int).SetString(s, 0); good {
		return x, x.Sign() > 0, false
	}
	return nil, false, true
}

func validBech32(addr string) bool {
	_, err := sdk.AccAddressFromBech32(addr)
	return err == nil
}

// ModelFees evaluates one fee action on amount A.
func ModelFees(A *big.Int, fees []Fee) FeeVerdict {
	v := FeeVerdict{Total: new(big.Int)}
	refuse := func(format string, a ...any) {
		if !v.Refuse {
			v.Refuse = true
			v.Reason = fmt.Sprintf(format, a...)
		}
	}
	dontCare := func(format string, a ...any) {
		if !v.DontCare {
			v.DontCare = true
			v.DontCareReason = fmt.Sprintf(format, a...)
		}
	}
	if len(fees) > MaxFeeEntries {
		refuse("%d entries > %d", len(fees), MaxFeeEntries)
	}
	for i, f := range fees {
		if !validBech32(f.Recipient) {
			refuse("entry %d: recipient %q is not a valid address", i, f.Recipient)
		}
		var fee *big.Int
		if f.IsFixed() {
			x, ok, canonical := ParseFixed(f.Fixed)
			if !canonical {
				dontCare("entry %d: non-canonical integer spelling %q", i, f.Fixed)
				if y, good := new(big.Int).SetString(f.Fixed, 0); x != nil && (!good || y.Cmp(x) != 0) {
					v.AmbiguousValue = true
				}
			}
			if !ok {
				if canonical {
					refuse("entry %d: fixed amount %q is not a positive integer", i, f.Fixed)
				}
				fee = new(big.Int)
			} else {
				if x.Cmp(two256) >= 0 {
					refuse("entry %d: fixed amount overflows", i)
				}
				fee = x
			}
		} else {
			if f.Bps == 0 || f.Bps > 10000 {
				refuse("entry %d: bps %d outside 1..10000", i, f.Bps)
				fee = new(big.Int)
			} else {
				prod := new(big.Int).Mul(A, big.NewInt(int64(f.Bps)))
				if prod.Cmp(two256) >= 0 {
					// "refused when the arithmetic overflows": the product does not fit in 256
					// bits although the fee itself would. An implementation computing it
					// without overflow would be equally correct.
					dontCare("entry %d: A*bps needs more than 256 bits", i)
				}
				fee = prod.Quo(prod, big10000)
			}
		}
		if fee.Sign() > 0 {
			v.Credits = append(v.Credits, Credit{Addr: f.Recipient, Amount: fee})
			v.Total = new(big.Int).Add(v.Total, fee)
		}
	}
	if v.Total.Cmp(A) >= 0 {
		refuse("total fee %s not strictly below amount %s", v.Total, A)
	}
	v.Remaining = new(big.Int).Sub(A, v.Total)
	return v
}

// SwapOut is what the LAB world's denomination-changing controller pays out for x.
func SwapOut(x *big.Int) *big.Int {
	r := new(big.Int).Mul(x, big.NewInt(3))
	return r.Quo(r, big.NewInt(2))
}

const SwapDenom = "uswapped"

// Running is the model's view of the coin as it passes through the action list.
type Running struct {
	Refuse   bool
	Reason   string
	DontCare bool
	Denom    string
	Amount   *big.Int
	// Expected ledger contributions of the actions, in order.
	Steps []ActionEffect
}

type ActionEffect struct {
	Kind    string
	InDenom string
	In      *big.Int
	Credits []Credit // fee credits (denom = InDenom)
	// swap
	OutDenom string
	Out      *big.Int
}

// RunActions folds the action list over the incoming coin.
func RunActions(denom string, A *big.Int, actions []Action) Running {
	r := Running{Denom: denom, Amount: new(big.Int).Set(A)}
	seen := map[string]bool{}
	for _, a := range actions {
		if seen[a.Kind] {
			r.Refuse, r.Reason = true, "repeated action identifier "+a.Kind
		}
		seen[a.Kind] = true
	}
	for _, a := range actions {
		switch a.Kind {
		case "fee":
			v := ModelFees(r.Amount, a.Fees)
			if v.Refuse && !r.Refuse {
				r.Refuse, r.Reason = true, v.Reason
			}
			if v.DontCare {
				r.DontCare = true
			}
			r.Steps = append(r.Steps, ActionEffect{Kind: "fee", InDenom: r.Denom, In: new(big.Int).Set(r.Amount), Credits: v.Credits})
			if v.Remaining.Sign() > 0 {
				r.Amount = v.Remaining
			}
		case "swap":
			out := SwapOut(r.Amount)
			if out.Cmp(two256) >= 0 && !r.Refuse {
				r.Refuse, r.Reason = true, "swap output overflows"
			}
			r.Steps = append(r.Steps, ActionEffect{Kind: "swap", InDenom: r.Denom, In: new(big.Int).Set(r.Amount), OutDenom: SwapDenom, Out: out})
			r.Denom, r.Amount = SwapDenom, out
		}
	}
	return r
}

// SwapPoolAddr is where the LAB swap controller parks its input.
var SwapPoolAddr = world.Addr("swap-pool")

// ExpectedDelta builds the whole-ledger delta of a successful transfer by adding one
// contribution per account, so that coinciding accounts need no special cases.
// pre is the balance of the transferred denom that sat on the orbiter account before the packet.
func ExpectedDelta(w *world.World, t Transfer, run Running, pre *big.Int) world.Delta {
	d := world.Delta{}
	A := t.AmountInt()
	neg := func(x *big.Int) *big.Int { return new(big.Int).Neg(x) }
	orb := world.OrbiterAddr.String()

	// ICS-20 releases the coin from the channel escrow to the orbiter account.
	d.Add(world.EscrowAddr(t.Channel).String(), t.Denom, neg(A))
	d.Add(orb, t.Denom, A)
	// The sweep moves what was there before to the dust collector.
	if pre.Sign() > 0 {
		d.Add(orb, t.Denom, neg(pre))
		d.Add(world.DustAddr.String(), t.Denom, pre)
	}
	for _, s := range run.Steps {
		switch s.Kind {
		case "fee":
			for _, c := range s.Credits {
				d.Add(orb, s.InDenom, neg(c.Amount))
				d.Add(canonAddr(c.Addr), s.InDenom, c.Amount)
			}
		case "swap":
			d.Add(orb, s.InDenom, neg(s.In))
			d.Add(SwapPoolAddr.String(), s.InDenom, s.In)
			d.Add(orb, s.OutDenom, s.Out)
			d.Add("supply", s.OutDenom, s.Out)
		}
	}
	// The route takes the final coin out of the orbiter account.
	F := run.Amount
	d.Add(orb, run.Denom, neg(F))
	switch t.Route.Kind {
	case "cctp":
		d.Add("supply", run.Denom, neg(F))
	case "hyp":
		d.Add(world.WarpAddr.String(), run.Denom, F)
	case "internal":
		d.Add(canonAddr(t.Route.To), run.Denom, F)
	}
	return d
}

// canonAddr maps any accepted spelling of a bech32 address to the canonical lower-case one the
// ledger uses.
func canonAddr(s string) string {
	a, err := sdk.AccAddressFromBech32(s)
	if err != nil {
		return s
	}
	return a.String()
}

// ---------------------------------------------------------------------------------------------
// Pause sets, parameter and statistics ledger.

type CC struct {
	Protocol     int32
	Counterparty string
}

type StatKey struct {
	SrcProto int32
	SrcCp    string
	DstProto int32
	DstCp    string
	Denom    string
}

type RouteKey struct {
	SrcProto int32
	SrcCp    string
	DstProto int32
	DstCp    string
}

type StatVal struct{ In, Out *big.Int }

type State struct {
	PausedProtocols map[int32]bool
	PausedCC        map[CC]bool
	PausedActions   map[int32]bool
	MaxPassthrough  uint32
	Amounts         map[StatKey]*StatVal
	Counts          map[RouteKey]uint64
}

func NewState() *State {
	return &State{
		PausedProtocols: map[int32]bool{},
		PausedCC:        map[CC]bool{},
		PausedActions:   map[int32]bool{},
		Amounts:         map[StatKey]*StatVal{},
		Counts:          map[RouteKey]uint64{},
	}
}

func (s *State) Clone() *State {
	c := NewState()
	for k, v := range s.PausedProtocols {
		c.PausedProtocols[k] = v
	}
	for k, v := range s.PausedCC {
		c.PausedCC[k] = v
	}
	for k, v := range s.PausedActions {
		c.PausedActions[k] = v
	}
	c.MaxPassthrough = s.MaxPassthrough
	for k, v := range s.Amounts {
		c.Amounts[k] = &StatVal{In: new(big.Int).Set(v.In), Out: new(big.Int).Set(v.Out)}
	}
	for k, v := range s.Counts {
		c.Counts[k] = v
	}
	return c
}

// Protocol identifiers as the proto enum defines them (the model keeps its own copy).
const (
	ProtoIBC      int32 = 1
	ProtoCCTP     int32 = 2
	ProtoHyp      int32 = 3
	ProtoInternal int32 = 4

	ActFee  int32 = 1
	ActSwap int32 = 2
)

var ProtocolNames = map[string]int32{
	"PROTOCOL_IBC": ProtoIBC, "PROTOCOL_CCTP": ProtoCCTP, "PROTOCOL_HYPERLANE": ProtoHyp, "PROTOCOL_INTERNAL": ProtoInternal,
}

var ActionNames = map[string]int32{"ACTION_FEE": ActFee, "ACTION_SWAP": ActSwap}

func ProtocolName(id int32) string {
	for n, v := range ProtocolNames {
		if v == id {
			return n
		}
	}
	return fmt.Sprintf("PROTOCOL_%d", id)
}

func ActionName(id int32) string {
	for n, v := range ActionNames {
		if v == id {
			return n
		}
	}
	return fmt.Sprintf("ACTION_%d", id)
}

var channelID = regexp.MustCompile(`^channel-(0|[1-9][0-9]*)$`)

// CanonicalCounterparty is the statement's notion of a valid counterparty id: a channel id for
// IBC, the decimal form of a 32-bit domain for CCTP/Hyperlane, any non-empty string for internal;
// at most 32 characters.
func CanonicalCounterparty(proto int32, id string) bool {
	if id == "" || len(id) > 32 {
		return false
	}
	switch proto {
	case ProtoIBC:
		if !channelID.MatchString(id) {
			return false
		}
		_, err := strconv.ParseUint(id[len("channel-"):], 10, 64)
		return err == nil
	case ProtoCCTP, ProtoHyp:
		v, err := strconv.ParseUint(id, 10, 32)
		return err == nil && strconv.FormatUint(v, 10) == id
	case ProtoInternal:
		return true
	}
	return false
}

// Destination of a route: protocol and counterparty as transfers record them.
func Destination(r Route) (int32, string) {
	switch r.Kind {
	case "cctp":
		return ProtoCCTP, strconv.FormatUint(uint64(r.Domain), 10)
	case "hyp":
		return ProtoHyp, strconv.FormatUint(uint64(r.Domain), 10)
	default:
		return ProtoInternal, "noble"
	}
}

// RoutePaused says whether the model considers the destination of a route paused.
func (s *State) RoutePaused(r Route) bool {
	p, c := Destination(r)
	return s.PausedProtocols[p] || s.PausedCC[CC{p, c}]
}

// ActionsPaused says whether any action of the list is paused.
func (s *State) ActionsPaused(actions []Action) bool {
	for _, a := range actions {
		switch a.Kind {
		case "fee":
			if s.PausedActions[ActFee] {
				return true
			}
		case "swap":
			if s.PausedActions[ActSwap] {
				return true
			}
		}
	}
	return false
}

// RecordTransfer accumulates one successful transfer from what was observed on the ledger:
// the coin received (escrow delta) and the coin forwarded (route sink delta / burn).
func (s *State) RecordTransfer(srcChannel string, r Route, inDenom string, in *big.Int, outDenom string, out *big.Int) {
	dp, dc := Destination(r)
	add := func(denom string, in, out *big.Int) {
		k := StatKey{ProtoIBC, srcChannel, dp, dc, denom}
		v, ok := s.Amounts[k]
		if !ok {
			v = &StatVal{In: new(big.Int), Out: new(big.Int)}
			s.Amounts[k] = v
		}
		v.In.Add(v.In, in)
		v.Out.Add(v.Out, out)
	}
	if inDenom == outDenom {
		add(inDenom, in, out)
	} else {
		add(inDenom, in, new(big.Int))
		add(outDenom, new(big.Int), out)
	}
	s.Counts[RouteKey{ProtoIBC, srcChannel, dp, dc}]++
}

func (s *State) SortedAmountKeys() []StatKey {
	keys := make([]StatKey, 0, len(s.Amounts))
	for k := range s.Amounts {
		keys = append(keys, k)
	}
	sort.Slice(keys, func(i, j int) bool { return fmt.Sprint(keys[i]) < fmt.Sprint(keys[j]) })
	return keys
}

func (s *State) SortedCountKeys() []RouteKey {
	keys := make([]RouteKey, 0, len(s.Counts))
	for k := range s.Counts {
		keys = append(keys, k)
	}
	sort.Slice(keys, func(i, j int) bool { return fmt.Sprint(keys[i]) < fmt.Sprint(keys[j]) })
	return keys
}
