package kit

import (
	"fmt"
	"strings"

	"pgregory.net/rapid"

	"verif/harness/memo"
)

// Spellings of ICS-20 packet data. The packet data is JSON read by the proto-JSON codec of the
// transfer application; every layer of the stack that looks at the packet must read it the way
// that codec does. SpellPacketData writes the five members as text and applies one or two
// spelling variants on which JSON decoders are known to disagree (repeated members, null, member
// name case, unknown members, trailing bytes, escapes, non-string values).

type PacketFields struct {
	Denom, Amount, Sender, Receiver, Memo string
}

var PacketSpellings = []string{
	"plain", "reorder", "dup-null-after", "dup-null-before", "dup-value-after", "dup-value-before", "unknown-member",
	"case-key-instead", "case-key-extra", "trailing", "leading", "escaped-key", "escaped-value", "non-string", "omit-member", "camel",
}

func jstr(s string) string { return memo.JStr(s).String() }

// SpellPacketData returns the packet data text and the list of variants applied. alt is the
// "other" receiver used by the repeated-member variants (callers pass the orbiter account when
// the base receiver is foreign and the other way round).
func SpellPacketData(t *rapid.T, label string, f PacketFields, alt string) (string, []string) {
	type member struct{ k, v string } // v is raw JSON text
	ms := []member{
		{"denom", jstr(f.Denom)}, {"amount", jstr(f.Amount)}, {"sender", jstr(f.Sender)}, {"receiver", jstr(f.Receiver)}, {"memo", jstr(f.Memo)},
	}
	idx := func(k string) int {
		for i, m := range ms {
			if m.k == k {
				return i
			}
		}
		return -1
	}
	insert := func(at int, m member) {
		if at < 0 {
			at = 0
		}
		if at > len(ms) {
			at = len(ms)
		}
		ms = append(ms[:at], append([]member{m}, ms[at:]...)...)
	}
	prefix, suffix := "", ""
	var applied []string
	n := 1 + uniform(t, label+"/n", 2)
	// At most one member with an unknown name per packet: with two, the proto-JSON codec of the
	// transfer application reports whichever its map iteration meets first, so the application's
	// own error text is not a function of the packet and cannot serve as a reference.
	unknownUsed := false
	for round := 0; round < n; round++ {
		l := fmt.Sprintf("%s/%d", label, round)
		v := pick(t, l+"/variant", PacketSpellings)
		switch v {
		case "unknown-member", "case-key-instead", "case-key-extra", "camel":
			if unknownUsed {
				v = "plain"
			}
			unknownUsed = true
		}
		target := pick(t, l+"/target", []string{"receiver", "receiver", "receiver", "memo", "denom", "amount", "sender"})
		i := idx(target)
		altValue := func() string {
			switch target {
			case "receiver":
				return jstr(alt)
			case "memo":
				return pick(t, l+"/altmemo", []string{`""`, `"{}"`, `"x"`})
			case "denom":
				return pick(t, l+"/altdenom", []string{`"uusdc"`, `"x"`, `""`})
			case "amount":
				return pick(t, l+"/altamount", []string{`"1"`, `"0"`, `""`})
			}
			return jstr(f.Receiver)
		}
		switch v {
		case "plain":
		case "reorder":
			j := uniform(t, l+"/to", len(ms))
			if i >= 0 {
				ms[i], ms[j] = ms[j], ms[i]
			}
		case "dup-null-after":
			if i >= 0 {
				insert(i+1+uniform(t, l+"/gap", len(ms)-i), member{target, "null"})
			}
		case "dup-null-before":
			if i >= 0 {
				insert(uniform(t, l+"/gap", i+1), member{target, "null"})
			}
		case "dup-value-after":
			if i >= 0 {
				insert(i+1+uniform(t, l+"/gap", len(ms)-i), member{target, altValue()})
			}
		case "dup-value-before":
			if i >= 0 {
				insert(uniform(t, l+"/gap", i+1), member{target, altValue()})
			}
		case "unknown-member":
			insert(uniform(t, l+"/at", len(ms)+1), member{pick(t, l+"/name", []string{"foo", "receiver2", "timeout", "", "forwarding"}), pick(t, l+"/val", []string{`"bar"`, "null", "1", "{}", jstr(alt)})})
		case "case-key-instead", "case-key-extra":
			k := pick(t, l+"/case", []string{strings.ToUpper(target[:1]) + target[1:], strings.ToUpper(target), target + " ", " " + target, strings.Replace(strings.Replace(target, "k", "K", 1), "s", "ſ", 1)})
			if i >= 0 {
				if v == "case-key-instead" {
					ms[i].k = k
				} else {
					val := ms[i].v
					if chance(t, l+"/caseval", 60) {
						val = altValue()
					}
					insert(uniform(t, l+"/at", len(ms)+1), member{k, val})
				}
			}
		case "trailing":
			suffix += pick(t, l+"/tail", []string{" ", "\n", "x", "{}", ",", "\x00", "}", "null", `{"receiver":` + jstr(alt) + `}`})
		case "leading":
			prefix += pick(t, l+"/head", []string{" ", "\n\t", "\ufeff", "\x00"})
		case "escaped-key":
			if i >= 0 {
				ms[i].k = "\x00ESC" + target // rendered below with a \u escape for the first letter
			}
		case "escaped-value":
			if i >= 0 && len(ms[i].v) > 2 && ms[i].v[0] == '"' {
				c := ms[i].v[1]
				if c != '\\' && c < 0x80 {
					ms[i].v = fmt.Sprintf(`"\u%04x%s`, c, ms[i].v[2:])
				}
			}
		case "non-string":
			if i >= 0 {
				ms[i].v = pick(t, l+"/ns", []string{"null", "1", "true", "{}", "[]", `[` + ms[i].v + `]`, `{"value":` + ms[i].v + `}`, "1e3", "-0"})
			}
		case "omit-member":
			if i >= 0 {
				ms = append(ms[:i], ms[i+1:]...)
			}
		case "camel":
			insert(uniform(t, l+"/at", len(ms)+1), member{pick(t, l+"/camelname", []string{"Receiver", "receiver_", "memo_", "Memo"}), altValue()})
		}
		applied = append(applied, v+":"+target)
	}
	var b strings.Builder
	b.WriteString(prefix)
	b.WriteByte('{')
	for i, m := range ms {
		if i > 0 {
			b.WriteByte(',')
		}
		if strings.HasPrefix(m.k, "\x00ESC") {
			k := m.k[4:]
			fmt.Fprintf(&b, `"\u%04x%s"`, k[0], k[1:])
		} else {
			b.WriteString(jstr(m.k))
		}
		b.WriteByte(':')
		b.WriteString(m.v)
	}
	b.WriteByte('}')
	b.WriteString(suffix)
	return b.String(), applied
}
