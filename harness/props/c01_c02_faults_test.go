package props

import (
	"encoding/json"
	"fmt"
	"math/big"
	"strings"
	"testing"

	"pgregory.net/rapid"

	"verif/harness/kit"
	"verif/harness/world"
)

// C01 and C02 with failing dependencies (LAB world). One packet shape, one dependency call that
// returns an error, panics before doing its work, or panics after it. Whatever the receive path
// makes of that - abort, error acknowledgement, or (if the failure was harmless) success - the
// invariants of C01 and C02 hold: a success acknowledgement never leaves the delivered coin (or
// anything more than before) on the orbiter account, and a success acknowledgement comes with the
// complete whole-ledger delta of the transfer.

func runLedgerFault(l *world.Lab, c caseC19Fault, rec *kit.Recorder, prop string) error {
	w := l.W
	base, err := prepareC03(l, c.Shape)
	if err != nil {
		return err
	}
	t := c.Shape.Transfer
	p, err := kit.BuildPacket(w.Cdc, t, false)
	if err != nil {
		return fmt.Errorf("harness: %w", err)
	}
	ctx, _ := base.CacheContext()
	var s *world.Session
	switch c.Mode {
	case "panic-before":
		s = l.BeginPanic(c.Site, false)
	case "panic-after":
		s = l.BeginPanic(c.Site, true)
	default:
		s = l.Begin(c.Site)
	}
	before := w.Ledger(ctx)
	out := world.Recv(ctx, l.Stack, p)
	l.Begin()
	after := w.Ledger(ctx)
	delta := world.Diff(before, after)
	fired, site := false, ""
	for _, cl := range s.Calls {
		if cl.Faulted {
			fired, site = true, cl.Site
		}
	}
	mode := c.Mode
	if mode == "" {
		mode = "error"
	}
	if !fired {
		rec.Label("fault", "not reached")
	} else {
		rec.Label("fault", mode+" fired")
		rec.NonTrivial(kit.JSON(c))
	}
	outcome := "error-ack"
	switch {
	case out.Panicked():
		outcome = "abort"
	case out.Success:
		outcome = "success"
	}
	rec.Label("outcome", outcome)
	if fired {
		rec.Sample("fault/"+mode+"/"+outcome, map[string]any{"case": c, "site": site})
	}
	if !out.Success {
		if len(delta) != 0 {
			return fmt.Errorf("%s at call %d (%s): no success acknowledgement, yet the ledger changed: %s", mode, c.Site, site, delta)
		}
		return nil
	}
	orb := world.OrbiterAddr.String()
	if prop == "C01" {
		for k, v := range after {
			if !strings.HasPrefix(k, orb+"|") {
				continue
			}
			was := before[k]
			if was == nil {
				was = new(big.Int)
			}
			if v.Cmp(was) > 0 {
				return fmt.Errorf("%s at call %d (%s): success acknowledgement and a larger orbiter balance than before: %s %s -> %s", mode, c.Site, site, k, was, v)
			}
		}
		if bal := after.Get(orb, t.Denom); bal.Sign() != 0 {
			return fmt.Errorf("%s at call %d (%s): success acknowledgement, yet %s %s of the delivered denomination sit on the orbiter account", mode, c.Site, site, bal, t.Denom)
		}
		return nil
	}
	run := kit.RunActions(t.Denom, t.AmountInt(), t.Actions)
	dust, _ := new(big.Int).SetString("0"+c.Shape.Dust, 10)
	if exp := kit.ExpectedDelta(w, t, run, dust); !exp.Equal(delta) {
		return fmt.Errorf("%s at call %d (%s): success acknowledgement without the complete ledger effect of the transfer\n  observed: %s\n  expected: %s", mode, c.Site, site, delta, exp)
	}
	return nil
}

func labFaultTest(t *testing.T, prop string) {
	l := lab(t)
	rec := kit.NewRecorder(t, prop)
	rapid.Check(t, func(rt *rapid.T) {
		c := caseC19Fault{Shape: genC03Shape(rt, l)}
		c.Site = rapid.IntRange(0, 9).Draw(rt, "site")
		c.Mode = pick(rt, "mode", []string{"", "panic-before", "panic-after"})
		rec.Eval()
		if err := runLedgerFault(l, c, rec, prop); err != nil {
			rec.Fail(rt, c, "%v", err)
		}
	})
	for _, m := range []string{"error", "panic-before", "panic-after"} {
		rec.Require("fault", m+" fired", 10)
	}
}

func TestC01LabFaults(t *testing.T) { labFaultTest(t, "C01") }
func TestC02LabFaults(t *testing.T) { labFaultTest(t, "C02") }

func init() {
	for _, prop := range []string{"C01", "C02"} {
		prop := prop
		kit.RegisterReplay("Test"+prop+"LabFaults", func(raw json.RawMessage) error {
			c, err := decode[caseC19Fault](raw)
			if err != nil {
				return fmt.Errorf("harness: %w", err)
			}
			if labW == nil {
				if labW, labErr = world.NewLab(prodW); labErr != nil {
					return fmt.Errorf("harness: %w", labErr)
				}
			}
			return runLedgerFault(labW, c, nil, prop)
		})
	}
}
