package props

import (
	"encoding/json"
	"fmt"
	"math/big"
	"testing"

	"pgregory.net/rapid"

	"verif/harness/kit"
	"verif/harness/world"
)

// C16 over the bridge routes: a one-hop return of a Noble-native denomination D, forwarded through
// Hyperlane or CCTP, while the orbiter account holds coins of OTHER denominations (the denomination
// of another collateral token, the synthetic token's own denomination). The route names the token
// of D, the token of another denomination, or the synthetic token. Whenever the packet is
// accepted, what leaves the account, what the bridge takes and what the statistics record is the
// coin ICS-20 credited, (D, A) minus fees - never a coin of another denomination.

type caseC16Route struct {
	Transfer kit.Transfer `json:"transfer"`
	Deposits []kit.Env    `json:"deposits"`
	Named    string       `json:"named"` // "own" | the denomination whose token the route names
}

func runC16Route(w *world.World, c caseC16Route, rec *kit.Recorder) error {
	m := kit.NewMachine(w)
	for _, d := range c.Deposits {
		d := d
		m.Do(kit.Step{Env: &d})
	}
	o := m.Do(kit.Step{Packet: &c.Transfer})
	if o.BuildErr != nil {
		return fmt.Errorf("harness: %w", o.BuildErr)
	}
	if o.Out.Panicked() {
		return fmt.Errorf("panic: %v", o.Out.Panic)
	}
	t := c.Transfer
	named := "route names the token of the credited denomination"
	if c.Named != "own" {
		named = "route names the token of another denomination"
	}
	if !o.Out.Success {
		rec.Label("c16-route", named+": refused")
		return nil
	}
	rec.Label("c16-route", named+": accepted")
	rec.NonTrivial(kit.JSON(c))
	rec.Sample("route/"+t.Route.Kind, c)
	if c.Named != "own" {
		return fmt.Errorf("accepted a %s forwarding of %s %s through the token of %s: the coin handed to the bridge is not the coin ICS-20 credited (ledger delta %s)",
			t.Route.Kind, t.Amount, t.Denom, c.Named, o.Delta)
	}
	orb := world.OrbiterAddr.String()
	for k, d := range o.Delta {
		addr, denom := splitKey(k)
		if denom != t.Denom && d.Sign() != 0 {
			return fmt.Errorf("a transfer of %s moved coins of another denomination: %s %s changed by %s (delta %s)", t.Denom, addr, denom, d, o.Delta)
		}
	}
	pre := o.PreOrbiter
	if pre == nil {
		pre = new(big.Int)
	}
	if exp := kit.ExpectedDelta(w, t, o.Run, pre); !exp.Equal(o.Delta) {
		return fmt.Errorf("ledger delta differs from the credited coin's path\n  observed: %s\n  expected: %s", o.Delta, exp)
	}
	if bal := w.Balance(m.Ctx, world.OrbiterAddr, t.Denom); bal.Sign() != 0 {
		return fmt.Errorf("%s %s left on %s", bal, t.Denom, orb)
	}
	impl := kit.ReadImpl(w, m.Ctx)
	for k := range impl.Amounts {
		if k.Denom != t.Denom {
			return fmt.Errorf("statistics record the denomination %s for a transfer of %s", k.Denom, t.Denom)
		}
	}
	return nil
}

func TestC16Routes(t *testing.T) {
	w := prod(t)
	rec := kit.NewRecorder(t, "C16")
	rapid.Check(t, func(rt *rapid.T) {
		denom := pick(rt, "denom", []string{world.Uusdc, world.Ufoo, world.Uusdc, world.Ufoo, world.SwapDenomUpper})
		tr := kit.GenTransfer(rt, w, kit.TransferOpt{
			Route:      kit.RouteOpt{EnvValid: true, Kinds: []string{"hyp", "hyp", "cctp"}},
			FeeClasses: []string{"plain"}, MaxActions: 1, KeepBelowLimit: true, Denoms: []string{denom},
		})
		tr.Amount = fmt.Sprint(1 + rapid.IntRange(0, 99999).Draw(rt, "amount"))
		c := caseC16Route{Transfer: tr, Named: "own"}
		if denom == world.SwapDenomUpper {
			// no token of its own: routed through the token of the denomination that differs from
			// it by letter case only, with coins of that one on the account
			c.Transfer.Actions = nil
			c.Transfer.Route = kit.Route{Kind: "hyp", TokenID: append([]byte{}, w.HypToken[world.SwapDenom]...), Domain: pick(rt, "casefold/domain", world.HypDomains), Recipient: kit.Bytes32(rt, "casefold/rcpt")}
			c.Named = world.SwapDenom
			c.Deposits = append(c.Deposits, kit.Env{Kind: "mint_to_orbiter", Denom: world.SwapDenom, Amount: "1000000"})
		} else if tr.Route.Kind == "hyp" && kit.Chance(rt, "crossed", 55) {
			c.Transfer.Actions = nil
			c.Transfer.Route, c.Named = kit.CrossedTokenRoute(rt, w, "crossed", denom)
		}
		// coins of the other denominations sit on the account, more than the transfer needs
		for _, d := range []string{world.Ufoo, world.Uusdc, world.SynthDenom, world.Gamm} {
			if d == denom || d == "" {
				continue
			}
			who := pick(rt, "dep/user/"+d, kit.PlainUsers)
			if d == world.SynthDenom {
				who = "whale"
			}
			if d == c.Named || kit.Chance(rt, "dep/"+d, 60) {
				c.Deposits = append(c.Deposits, kit.Env{Kind: "deposit", User: who, Denom: d, Amount: "1000000"})
			}
		}
		rec.Eval()
		if err := runC16Route(w, c, rec); err != nil {
			rec.Fail(rt, c, "%v", err)
		}
	})
	rec.Require("c16-route", "route names the token of the credited denomination: accepted", 30)
	rec.Require("c16-route", "route names the token of another denomination: refused", 30)
}

func init() {
	kit.RegisterReplay("TestC16Routes", func(raw json.RawMessage) error {
		c, err := decode[caseC16Route](raw)
		if err != nil {
			return fmt.Errorf("harness: %w", err)
		}
		return runC16Route(prodW, c, nil)
	})
}
