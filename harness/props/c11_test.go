package props

import (
	"bytes"
	"encoding/json"
	"fmt"
	"math/big"
	"strings"
	"testing"

	abci "github.com/cometbft/cometbft/abci/types"
	"pgregory.net/rapid"

	"verif/harness/kit"
	"verif/harness/world"
)

// C11 — coins already on the orbiter account never alter, fund or block a transfer.
// Metamorphic: the same transfer on the same state with and without prior deposits.

type caseC11 struct {
	Prefix   kit.History  `json:"prefix"`
	Deposits []kit.Env    `json:"deposits"`
	Transfer kit.Transfer `json:"transfer"`
	// Post are environment steps that happen after the deposits and before the transfer, in both
	// runs (e.g. the bank's send switch of the denomination is turned off once the coins sit there).
	Post []kit.Env `json:"post,omitempty"`
}

// thirdPartyEvents keeps the events of the bridges (the decoded outgoing request, incl. the CCTP
// nonce): everything that is neither a bank bookkeeping event nor one of orbiter's own.
func thirdPartyEvents(evs []abci.Event) []abci.Event {
	var out []abci.Event
	for _, e := range evs {
		switch e.Type {
		case "coin_spent", "coin_received", "transfer", "message", "burn", "coinbase":
			continue
		}
		if strings.HasPrefix(e.Type, "noble.orbiter") {
			continue
		}
		out = append(out, e)
	}
	return out
}

func runC11(w *world.World, c caseC11, rec *kit.Recorder) error {
	m := kit.NewMachine(w)
	for _, s := range c.Prefix {
		m.Do(s)
	}
	orb := world.OrbiterAddr.String()
	dust := world.DustAddr.String()
	// S: the orbiter account is empty (no deposits in the prefix; C01 keeps it empty otherwise)
	for k, v := range w.Ledger(m.Ctx) {
		if strings.HasPrefix(k, orb+"|") && v.Sign() != 0 {
			rec.Label("c11", "skipped: orbiter account not empty after the prefix")
			return nil
		}
	}
	p, err := kit.BuildPacket(w.Cdc, c.Transfer, false)
	if err != nil {
		rec.Label("c11", "skipped: unserialisable")
		return nil
	}
	// run A: no deposits
	ctxA, _ := m.Ctx.CacheContext()
	ma := &kit.Machine{W: w, Ctx: ctxA, Model: kit.NewState()}
	for _, e := range c.Post {
		ma.Do(kit.Step{Env: &e})
	}
	beforeA := w.Ledger(ctxA)
	outA := world.Recv(ctxA, w.Stack, p)
	deltaA := world.Diff(beforeA, w.Ledger(ctxA))
	statsA := w.OrbiterGenesis(ctxA)

	// run B: deposits first
	mb := &kit.Machine{W: w, Ctx: m.Ctx, Model: m.Model}
	ctxB, _ := m.Ctx.CacheContext()
	mb.Ctx = ctxB
	deposited := map[string]*big.Int{}
	for _, d := range c.Deposits {
		o := mb.Do(kit.Step{Env: &d})
		if o.Tx.OK() {
			amt, _ := new(big.Int).SetString(d.Amount, 10)
			if deposited[d.Denom] == nil {
				deposited[d.Denom] = new(big.Int)
			}
			deposited[d.Denom].Add(deposited[d.Denom], amt)
		}
	}
	for _, e := range c.Post {
		mb.Do(kit.Step{Env: &e})
	}
	beforeB := w.Ledger(ctxB)
	outB := world.Recv(ctxB, w.Stack, p)
	afterB := w.Ledger(ctxB)
	deltaB := world.Diff(beforeB, afterB)
	statsB := w.OrbiterGenesis(ctxB)

	if outA.Panicked() || outB.Panicked() {
		return fmt.Errorf("panic: without deposits %v, with deposits %v\n%s", outA.Panic, outB.Panic, firstLines(outB.PanicStack, 30))
	}
	same := deposited[c.Transfer.Denom]
	hasSame := same != nil && same.Sign() > 0
	if hasSame && outA.Success {
		rec.NonTrivial(kit.JSON(map[string]any{"d": c.Deposits, "t": c.Transfer}))
		rec.Label("c11", "pre-existing balance in the transferred denom, base run succeeds")
		rec.Sample("pair/"+c.Transfer.Route.Kind, c)
	} else if hasSame {
		rec.Label("c11", "pre-existing balance in the transferred denom, base run refused")
	} else {
		rec.Label("c11", "deposits in other denoms only")
	}
	if !bytes.Equal(outA.AckBytes, outB.AckBytes) {
		return fmt.Errorf("the acknowledgement depends on coins sitting on the orbiter account:\n  without deposits: %s\n  with deposits %v: %s", outA.AckBytes, deposited, outB.AckBytes)
	}
	if !deltaA.Without(orb, dust).Equal(deltaB.Without(orb, dust)) {
		return fmt.Errorf("the ledger effect on other accounts depends on prior deposits:\n  without: %s\n  with %v: %s", deltaA, deposited, deltaB)
	}
	if world.EventsDigest(thirdPartyEvents(outA.Events)) != world.EventsDigest(thirdPartyEvents(outB.Events)) {
		return fmt.Errorf("the outgoing bridge request (third-party events) depends on prior deposits")
	}
	if !bytes.Equal(statsA, statsB) {
		return fmt.Errorf("the statistics depend on prior deposits:\n  without: %s\n  with: %s", statsA, statsB)
	}
	if outB.Success {
		// the pre-existing balance of the transferred denom is on the dust collector, other
		// denominations are still on the orbiter account, untouched
		for denom, amt := range deposited {
			if denom == c.Transfer.Denom {
				if got := deltaB.Get(dust, denom); got.Cmp(amt) != 0 {
					return fmt.Errorf("pre-existing %s %s: dust collector changed by %s", amt, denom, got)
				}
				if bal := afterB.Get(orb, denom); bal.Sign() != 0 {
					return fmt.Errorf("after a successful transfer the orbiter account still holds %s %s", bal, denom)
				}
			} else {
				if got := deltaB.Get(orb, denom); got.Sign() != 0 {
					return fmt.Errorf("deposit in another denom (%s) was touched: orbiter delta %s", denom, got)
				}
				if bal := afterB.Get(orb, denom); bal.Cmp(amt) != 0 {
					return fmt.Errorf("deposit of %s %s: orbiter account holds %s afterwards", amt, denom, bal)
				}
			}
		}
	} else if len(deltaB) != 0 {
		return fmt.Errorf("a refused transfer left a ledger delta %s", deltaB)
	}
	return nil
}

func TestC11Pairs(t *testing.T) {
	w := prod(t)
	rec := kit.NewRecorder(t, "C11")
	prefixOpt := kit.HistOpt{
		MinSteps: 0, MaxSteps: 8,
		PacketW: 60, AdminW: 25, EnvW: 15,
		Packet: func(rt *rapid.T) kit.Transfer { return genC08Probe(rt, w) },
		Admin:  kit.AdminOpt{ForeignSignerPct: 5, InvalidPct: 5},
		Env:    kit.EnvOpt{Kinds: []string{"reescrow", "ftf_pause", "ftf_unpause", "blacklist", "unblacklist", "burn_limit", "next_block", "send_disable", "send_enable", "exec_mode", "exec_mode"}},
	}
	rapid.Check(t, func(rt *rapid.T) {
		c := caseC11{Prefix: kit.GenHistory(rt, prefixOpt)}
		c.Transfer = genBroadTransfer(rt, w)
		if kit.Chance(rt, "passthrough", 30) {
			// a passthrough payload, with the parameter raised (mostly) far enough to allow it
			n := pick(rt, "passthrough/len", []int{1, 8, 64})
			c.Transfer.Route.Passthrough = make([]byte, n)
			limit := uint32(pick(rt, "passthrough/limit", []int{n, n, n + 10, 1000, n - 1}))
			c.Prefix = append(c.Prefix, kit.Step{Admin: &kit.Admin{Kind: "update_params", MaxPassthrough: limit}})
		}
		crossed := ""
		if kit.Chance(rt, "crossed-token", 10) {
			// a Hyperlane route naming the collateral token of another denomination, with that
			// denomination sitting on the orbiter account: it must not pay for the transfer
			c.Transfer.Route, crossed = kit.CrossedTokenRoute(rt, w, "crossed", c.Transfer.Denom)
			c.Transfer.Amount = fmt.Sprint(1 + rapid.IntRange(0, 999).Draw(rt, "crossed/amount"))
			c.Transfer.Actions = nil
			who, amount := pick(rt, "crossed/user", kit.PlainUsers), "1000000"
			if crossed == world.Uhuge || crossed == world.SynthDenom {
				who = "whale"
			}
			c.Deposits = append(c.Deposits, kit.Env{Kind: "deposit", User: who, Denom: crossed, Amount: amount})
			rec.Label("c11", "route names another denomination's collateral token, that denomination pre-exists")
		}
		n := 1 + rapid.IntRange(0, 3).Draw(rt, "deposits/n")
		for i := 0; i < n; i++ {
			d := kit.Env{Kind: "deposit", User: pick(rt, fmt.Sprintf("dep/%d/user", i), kit.PlainUsers)}
			if kit.Chance(rt, fmt.Sprintf("dep/%d/same", i), 65) {
				d.Denom = c.Transfer.Denom
			} else {
				d.Denom = pick(rt, fmt.Sprintf("dep/%d/denom", i), world.EscrowDenoms)
			}
			if d.Denom == world.Uhuge {
				d.Denom = world.Ufoo // users hold no uhuge
			}
			d.Amount = pick(rt, fmt.Sprintf("dep/%d/amount", i), []string{"1", "7", "1000", "999999999", "1000000000", c.Transfer.Amount})
			if a, ok := new(big.Int).SetString(d.Amount, 10); !ok || a.Cmp(big.NewInt(1_000_000_000_000)) > 0 {
				d.Amount = "123456"
			}
			if kit.Chance(rt, fmt.Sprintf("dep/%d/whale", i), 12) {
				d.User = "whale"
				d.Amount = pick(rt, fmt.Sprintf("dep/%d/big", i), []string{"9223372036854775807", "9223372036854775808", "18446744073709551616", "340282366920938463463374607431768211456"})
			}
			c.Deposits = append(c.Deposits, d)
		}
		if kit.Chance(rt, "post/send-switch", 12) {
			// the bank's send switch of a denomination goes off while the coins sit on the account
			c.Post = append(c.Post, kit.Env{Kind: "send_disable", Denom: pick(rt, "post/send-switch/denom", []string{c.Transfer.Denom, c.Transfer.Denom, world.Ufoo, world.Uusdc})})
			rec.Label("c11", "send switch turned off after the deposits")
		}
		rec.Eval()
		if err := runC11(w, c, rec); err != nil {
			rec.Fail(rt, c, "%v", err)
		}
	})
	rec.Require("c11", "pre-existing balance in the transferred denom, base run succeeds", 50)
}

func init() {
	kit.RegisterReplay("TestC11Pairs", func(raw json.RawMessage) error {
		c, err := decode[caseC11](raw)
		if err != nil {
			return fmt.Errorf("harness: %w", err)
		}
		return runC11(prodW, c, nil)
	})
}
