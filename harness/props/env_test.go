package props

import (
	"math/big"
	"sort"
	"strings"

	sdkmath "cosmossdk.io/math"
	"encoding/json"
	"os"
	"sync"
	"testing"

	sdk "github.com/cosmos/cosmos-sdk/types"

	"verif/harness/kit"
	"verif/harness/world"
)

var (
	prodOnce sync.Once
	prodW    *world.World
	prodErr  error
)

// prod returns the process-wide PROD world (DESIGN.md §2.2). Cases only ever work on branches of
// its root state, so sharing it between cases is safe.
func prod(t testing.TB) *world.World {
	prodOnce.Do(func() {
		prodW, prodErr = world.New(world.Options{})
		if prodErr == nil {
			// every type URL the application's codec can resolve, under any interface
			reg := prodW.Cdc.InterfaceRegistry()
			seen := map[string]bool{}
			for _, iface := range reg.ListAllInterfaces() {
				for _, url := range reg.ListImplementations(iface) {
					if !seen[url] {
						seen[url] = true
						kit.ExtraTypeURLs = append(kit.ExtraTypeURLs, url)
					}
				}
			}
			sort.Strings(kit.ExtraTypeURLs)
		}
	})
	if prodErr != nil {
		t.Fatalf("harness: building the PROD world failed: %v", prodErr)
	}
	return prodW
}

func thorough() bool { return os.Getenv("VERIF_TIER") == "thorough" }

// TestReplay re-executes one replay file (VERIF_REPLAY) through the same exec -> oracle code as
// the generated checks, without rapid.
func TestReplay(t *testing.T) {
	path := os.Getenv("VERIF_REPLAY")
	if path == "" {
		t.Skip("VERIF_REPLAY not set")
	}
	prod(t)
	doc, err := kit.Replay(path)
	if err != nil && strings.HasPrefix(err.Error(), "harness:") {
		t.Fatalf("HARNESS ERROR %s (%s): %v", doc.Property, doc.Test, err)
	}
	if err != nil {
		if cf := os.Getenv("VERIF_CASEFILE"); cf != "" {
			out := map[string]any{"property": doc.Property, "test": doc.Test, "case": doc.Case, "message": err.Error()}
			bz, _ := json.MarshalIndent(out, "", " ")
			_ = os.WriteFile(cf, bz, 0o644)
		}
		t.Fatalf("VIOLATION %s (%s): %v", doc.Property, doc.Test, err)
	}
	t.Logf("replay of %s (%s) passed", doc.Property, doc.Test)
}

func decode[T any](raw json.RawMessage) (T, error) {
	var v T
	err := json.Unmarshal(raw, &v)
	return v, err
}

// orbiterAddressed is the decoding sense of "addressed to the orbiter account": the receiver
// decodes, as the ICS-20 application itself decodes it, to the module address.
func orbiterAddressed(receiver string) bool {
	a, err := sdk.AccAddressFromBech32(receiver)
	return err == nil && a.Equals(world.OrbiterAddr)
}

var (
	labOnce sync.Once
	labW    *world.Lab
	labErr  error
)

// lab returns the process-wide LAB world built on top of the PROD world's application.
func lab(t testing.TB) *world.Lab {
	w := prod(t)
	labOnce.Do(func() { labW, labErr = world.NewLab(w) })
	if labErr != nil {
		t.Fatalf("harness: building the LAB world failed: %v", labErr)
	}
	return labW
}

func sdkInt(b *big.Int) sdkmath.Int { return sdkmath.NewIntFromBigInt(b) }

func sdkAddr(s string) (string, error) {
	a, err := sdk.AccAddressFromBech32(s)
	if err != nil {
		return "", err
	}
	return a.String(), nil
}

// TestWriteSeeds regenerates harness/light/seeds.json, the seed corpus of the native fuzz target
// (development tool: VERIF_WRITE_SEEDS=<path>).
func TestWriteSeeds(t *testing.T) {
	path := os.Getenv("VERIF_WRITE_SEEDS")
	if path == "" {
		t.Skip("VERIF_WRITE_SEEDS not set")
	}
	w := prod(t)
	var seeds []string
	add := func(tr kit.Transfer) {
		if m, err := kit.BuildMemo(w.Cdc, tr, false); err == nil {
			seeds = append(seeds, m)
		}
	}
	fee := []kit.Action{{Kind: "fee", Fees: []kit.Fee{{Recipient: world.Addr("alice").String(), Bps: 100}, {Recipient: world.Addr("bob").String(), Fixed: "7"}}}}
	add(kit.Transfer{Route: kit.Route{Kind: "cctp", Domain: 0, MintRecipient: kit.Fill32(1)}})
	add(kit.Transfer{Actions: fee, Route: kit.Route{Kind: "cctp", Domain: 5, MintRecipient: kit.Fill32(1), DestCaller: kit.Fill32(2), Passthrough: []byte("hello")}})
	add(kit.Transfer{Route: kit.Route{Kind: "hyp", Domain: 1, TokenID: w.HypToken[world.Uusdc], Recipient: kit.Fill32(3)}})
	add(kit.Transfer{Actions: fee, Route: kit.Route{Kind: "hyp", Domain: 7, TokenID: w.HypToken[world.Ufoo], Recipient: kit.Fill32(3), HookID: w.HypHook, HookMeta: "0xdeadbeef", GasLimit: "200000", MaxFeeDenom: "uusdc", MaxFeeAmount: "10"}})
	add(kit.Transfer{Route: kit.Route{Kind: "internal", To: world.Addr("carol").String()}})
	add(kit.Transfer{Actions: []kit.Action{{Kind: "fee"}}, Route: kit.Route{Kind: "internal", To: world.Addr("carol").String()}})
	for _, s := range append([]string{}, seeds...) {
		seeds = append(seeds, numericEnums(s))
	}
	// hostile constants
	seeds = append(seeds, `{"orbiter":{"pre_actions":[null],"forwarding":null}}`, `{"orbiter":{"forwarding":{"protocol_id":9}}}`,
		`{"orbiter":{"pre_actions":[{"id":"ACTION_FEE","attributes":{"@type":"`+kit.URLFee()+`","fees_info":[null]}}]}}`,
		`{"orbiter":{"pre_actions":[{"id":1,"attributes":{"@type":"`+kit.URLFee()+`","fees_info":[{"recipient":"x","basis_points":{"value":1},"amount":{"value":"2"}}]}}]}}`,
		`{"orbiter":{"forwarding":{"protocol_id":4,"attributes":{"@type":"/cosmos.bank.v1beta1.MsgSend","a":1,"b":2}}}}`,
		`{"orbiter":{},"other":1}`, `[{"orbiter":{}}]`)
	bz, _ := json.MarshalIndent(seeds, "", " ")
	if err := os.WriteFile(path, bz, 0o644); err != nil {
		t.Fatal(err)
	}
	t.Logf("%d seeds written", len(seeds))
}
