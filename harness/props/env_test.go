package props

import (
	"math/big"

	sdkmath "cosmossdk.io/math"
	"encoding/json"
	"os"
	"sync"
	"testing"

	sdk "github.com/cosmos/cosmos-sdk/types"

	"verif/harness/kit"
	"verif/harness/world"
)

var (
	prodOnce sync.Once
	prodW    *world.World
	prodErr  error
)

// prod returns the process-wide PROD world (DESIGN.md §2.2). Cases only ever work on branches of
// its root state, so sharing it between cases is safe.
func prod(t testing.TB) *world.World {
	prodOnce.Do(func() { prodW, prodErr = world.New(world.Options{}) })
	if prodErr != nil {
		t.Fatalf("harness: building the PROD world failed: %v", prodErr)
	}
	return prodW
}

func thorough() bool { return os.Getenv("VERIF_TIER") == "thorough" }

// TestReplay re-executes one replay file (VERIF_REPLAY) through the same exec -> oracle code as
// the generated checks, without rapid.
func TestReplay(t *testing.T) {
	path := os.Getenv("VERIF_REPLAY")
	if path == "" {
		t.Skip("VERIF_REPLAY not set")
	}
	prod(t)
	doc, err := kit.Replay(path)
	if err != nil {
		if cf := os.Getenv("VERIF_CASEFILE"); cf != "" {
			out := map[string]any{"property": doc.Property, "test": doc.Test, "case": doc.Case, "message": err.Error()}
			bz, _ := json.MarshalIndent(out, "", " ")
			_ = os.WriteFile(cf, bz, 0o644)
		}
		t.Fatalf("VIOLATION %s (%s): %v", doc.Property, doc.Test, err)
	}
	t.Logf("replay of %s (%s) passed", doc.Property, doc.Test)
}

func decode[T any](raw json.RawMessage) (T, error) {
	var v T
	err := json.Unmarshal(raw, &v)
	return v, err
}

// orbiterAddressed is the decoding sense of "addressed to the orbiter account": the receiver
// decodes, as the ICS-20 application itself decodes it, to the module address.
func orbiterAddressed(receiver string) bool {
	a, err := sdk.AccAddressFromBech32(receiver)
	return err == nil && a.Equals(world.OrbiterAddr)
}

var (
	labOnce sync.Once
	labW    *world.Lab
	labErr  error
)

// lab returns the process-wide LAB world built on top of the PROD world's application.
func lab(t testing.TB) *world.Lab {
	w := prod(t)
	labOnce.Do(func() { labW, labErr = world.NewLab(w) })
	if labErr != nil {
		t.Fatalf("harness: building the LAB world failed: %v", labErr)
	}
	return labW
}

func sdkInt(b *big.Int) sdkmath.Int { return sdkmath.NewIntFromBigInt(b) }

func sdkAddr(s string) (string, error) {
	a, err := sdk.AccAddressFromBech32(s)
	if err != nil {
		return "", err
	}
	return a.String(), nil
}
