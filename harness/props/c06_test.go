package props

import (
	"encoding/json"
	"fmt"
	"math/big"
	"strings"
	"testing"

	"pgregory.net/rapid"

	sdkmath "cosmossdk.io/math"
	sdk "github.com/cosmos/cosmos-sdk/types"
	banktypes "github.com/cosmos/cosmos-sdk/x/bank/types"
	transfertypes "github.com/cosmos/ibc-go/v8/modules/apps/transfer/types"

	"verif/harness/kit"
	"verif/harness/world"
)

// C06 — actions run in payload order on the running amount; the final coin is forwarded.
// LAB world: the fee controller plus a denomination-changing controller under ACTION_SWAP.

type caseC06 struct {
	Transfer kit.Transfer `json:"transfer"`
	Dust     string       `json:"dust,omitempty"`
	// Paused is an action kind ("fee" | "swap") the authority pauses before the packet arrives.
	Paused string `json:"paused,omitempty"`
	// Crossed marks a Hyperlane route that names the token of another denomination than the one
	// the last action leaves: it must be refused.
	Crossed bool `json:"crossed,omitempty"`
	// OutDust is an amount of the swap OUTPUT denomination that sits on the orbiter account before
	// the packet arrives (left by whoever). The sweep clears the received denomination only, so
	// the module may refuse such a transfer at its balance precondition (a don't-care here); if
	// it accepts it, exactly the coin left by the last action is forwarded, as always.
	OutDust string `json:"out_dust,omitempty"`
}

func runC06(l *world.Lab, c caseC06, rec *kit.Recorder) error {
	w := l.W
	t := c.Transfer
	p, err := kit.BuildPacket(w.Cdc, t, false)
	if err != nil {
		return fmt.Errorf("harness: %w", err)
	}
	ctx := w.Branch()
	dust := new(big.Int)
	if c.Dust != "" {
		m := &kit.Machine{W: w, Ctx: ctx, Model: kit.NewState()}
		if o := m.Do(kit.Step{Env: &kit.Env{Kind: "deposit", User: "carol", Denom: t.Denom, Amount: c.Dust}}); o.Tx.OK() {
			dust, _ = new(big.Int).SetString(c.Dust, 10)
		}
	}
	if c.OutDust != "" {
		amt, ok := sdkmath.NewIntFromString(c.OutDust)
		if !ok {
			return fmt.Errorf("harness: out_dust %q", c.OutDust)
		}
		coins := sdk.Coins{sdk.Coin{Denom: world.SwapDenom, Amount: amt}}
		if err := w.App.BankKeeper.MintCoins(ctx, transfertypes.ModuleName, coins); err != nil {
			return fmt.Errorf("harness: %w", err)
		}
		if err := w.App.BankKeeper.SendCoinsFromModuleToAccount(ctx, transfertypes.ModuleName, world.OrbiterAddr, coins); err != nil {
			return fmt.Errorf("harness: %w", err)
		}
	}
	if c.Paused != "" {
		msg, err := kit.BuildAdmin(kit.Admin{Kind: "pause_action", Action: map[string]string{"fee": "ACTION_FEE", "swap": "ACTION_SWAP"}[c.Paused]})
		if err != nil {
			return fmt.Errorf("harness: %w", err)
		}
		if res := w.Tx(ctx, msg); !res.OK() {
			return fmt.Errorf("harness: pausing %s failed: %v", c.Paused, res.Err)
		}
	}
	s := l.Begin()
	before := w.Ledger(ctx)
	out := world.Recv(ctx, l.Stack, p)
	delta := world.Diff(before, w.Ledger(ctx))
	if out.Panicked() {
		return fmt.Errorf("panic: %v", out.Panic)
	}
	run := kit.RunActions(t.Denom, t.AmountInt(), t.Actions)
	var kinds []string
	for _, a := range t.Actions {
		kinds = append(kinds, a.Kind)
	}
	order := strings.Join(kinds, ",")
	rec.Label("order", "["+order+"]")

	// the action calls actually made, in order
	type actCall struct {
		site string
		req  any
	}
	var acts []actCall
	for _, cl := range s.Calls {
		if cl.Site == "fee-send" || cl.Site == "swap" {
			acts = append(acts, actCall{cl.Site, cl.Req})
		}
	}
	repeated := false
	seen := map[string]bool{}
	for _, k := range kinds {
		if seen[k] {
			repeated = true
		}
		seen[k] = true
	}
	if repeated {
		rec.Label("c06", "repeated identifier")
		rec.NonTrivial(kit.JSON(c))
		if out.Success {
			return fmt.Errorf("payload repeats an action identifier [%s] but was accepted", order)
		}
		if len(acts) != 0 {
			return fmt.Errorf("payload repeats an action identifier [%s]; it was refused but %d action calls were executed first", order, len(acts))
		}
		return nil
	}
	// an action that must be refused anywhere in the list refuses the whole transfer: every action
	// is applied, in order, or the packet is not forwarded at all
	mustRefuse, why := "", ""
	if run.Refuse && !run.DontCare {
		mustRefuse, why = "refusing action", run.Reason
	}
	if c.Paused != "" && seen[c.Paused] {
		mustRefuse, why = "paused action", c.Paused+" is paused"
	}
	if c.Crossed && mustRefuse == "" {
		// the forwarding step would send another denomination than the one the last action left;
		// if a request reached the bridge at all, its token is checked below like any other
		for _, call := range bridgeCalls(s) {
			if err := checkRequest(t, run, call); err != nil {
				return fmt.Errorf("order [%s]: %w", order, err)
			}
		}
		rec.Label("c06", "route names another denomination's token")
		if out.Success {
			return fmt.Errorf("order [%s]: the route names the Hyperlane token of another denomination than %s, yet the transfer was acknowledged as a success", order, run.Denom)
		}
		return nil
	}
	if mustRefuse != "" {
		rec.Label("c06", mustRefuse+" in the list")
		if len(kinds) >= 2 {
			rec.Label("c06", mustRefuse+" in a list of two or more")
			rec.NonTrivial(kit.JSON(c))
		}
		if out.Success {
			return fmt.Errorf("order [%s]: %s, yet the transfer was acknowledged as a success after the calls %v: the listed actions were not all applied", order, why, s.Sites())
		}
		return nil
	}
	if !out.Success {
		// whatever the bridge answered: the request that reached it must carry the coin left by the
		// last action (the bridge may have refused that very coin - e.g. CCTP cannot burn the swap
		// output - but it must have been asked about the right one)
		for _, call := range bridgeCalls(s) {
			if err := checkRequest(t, run, call); err != nil {
				return fmt.Errorf("order [%s]: the request that reached the bridge (which refused it) does not carry the coin left by the last action: %w", order, err)
			}
			rec.Label("c06", "bridge refused, its request checked")
		}
		// the model accepts the list, nothing is paused: a refusal is legitimate only when one of
		// the module's dependencies (ICS-20, bank, the swap venue, a bridge, the event manager)
		// refused something - every such call is recorded. A refusal with no failed dependency
		// call is the module itself refusing a list it must apply.
		for _, cl := range s.Calls {
			if cl.Err != nil {
				rec.Label("c06", "refused: a dependency call failed ("+cl.Site+")")
				return nil
			}
		}
		if run.DontCare {
			rec.Label("c06", "refused (model: don't-care)")
			return nil
		}
		if c.OutDust != "" && run.Denom == world.SwapDenom {
			rec.Label("c06", "refused: the swap output denomination pre-exists on the account (don't-care)")
			return nil
		}
		return fmt.Errorf("order [%s]: the model accepts the list and no dependency call failed (calls %v), yet the transfer was refused: the listed actions were not applied", order, s.Sites())
	}
	if len(kinds) >= 2 || strings.Contains(order, "swap") {
		rec.NonTrivial(kit.JSON(c))
		rec.Sample("order/"+order, map[string]any{"case": c, "calls": s.Sites(), "delta": delta.String()})
	}
	rec.Label("c06", "success")
	// expected sequence of action calls: each action sees the coin left by its predecessor
	var want []actCall
	for _, st := range run.Steps {
		switch st.Kind {
		case "fee":
			for _, cr := range st.Credits {
				want = append(want, actCall{"fee-send", fmt.Sprintf("%s %s%s", cr.Addr, cr.Amount, st.InDenom)})
			}
		case "swap":
			want = append(want, actCall{"swap", fmt.Sprintf("%s%s", st.In, st.InDenom)})
		}
	}
	if len(acts) != len(want) {
		return fmt.Errorf("order [%s]: %d action calls were made, the model expects %d (calls %v)", order, len(acts), len(want), s.Sites())
	}
	for i := range want {
		got := acts[i]
		var gotReq string
		switch r := got.req.(type) {
		case *banktypes.MsgSend:
			to := r.ToAddress
			gotReq = fmt.Sprintf("%s %s", to, r.Amount)
		case string:
			gotReq = r
		}
		wantReq := want[i].req.(string)
		if got.site == "fee-send" {
			// compare with the canonical spelling of the recipient
			parts := strings.SplitN(wantReq, " ", 2)
			wantReq = canon(parts[0]) + " " + parts[1]
		}
		if got.site != want[i].site || gotReq != wantReq {
			return fmt.Errorf("order [%s]: action call %d is %s(%s), the model expects %s(%s): actions do not run in payload order on the running coin",
				order, i, got.site, gotReq, want[i].site, wantReq)
		}
	}
	calls := bridgeCalls(s)
	if len(calls) != 1 {
		return fmt.Errorf("success with %d bridge calls", len(calls))
	}
	if err := checkRequest(t, run, calls[0]); err != nil {
		return fmt.Errorf("order [%s]: the forwarding does not carry the coin left by the last action: %w", order, err)
	}
	if exp := kit.ExpectedDelta(w, t, run, dust); !exp.Equal(delta) {
		return fmt.Errorf("order [%s]: ledger delta differs from the model\n  observed: %s\n  expected: %s", order, delta, exp)
	}
	// statistics: two entries when the denomination changed
	model := kit.NewState()
	model.RecordTransfer(world.NobleChannel(t.Channel), t.Route, t.Denom, t.AmountInt(), run.Denom, run.Amount)
	if err := model.CompareStats(kit.ReadImpl(w, ctx)); err != nil {
		return fmt.Errorf("order [%s]: statistics: %w", order, err)
	}
	return nil
}

func canon(addr string) string {
	if a, err := sdkAddr(addr); err == nil {
		return a
	}
	return addr
}

func genC06(t *rapid.T, l *world.Lab) caseC06 {
	w := l.W
	denom := pick(t, "denom", []string{world.Uusdc, world.Ufoo, world.Gamm, world.Uhuge, world.SwapDenomUpper})
	ch := rapid.IntRange(0, 3).Draw(t, "channel")
	if denom == world.Uhuge {
		ch = 0
	}
	A, _ := kit.Amount(t, "amount", denom)
	if A.BitLen() > 250 {
		A = new(big.Int).Lsh(big.NewInt(1), 250) // room for the swap output
	}
	order := pick(t, "order", []string{"fee,swap", "fee,swap", "fee,swap", "swap,fee", "swap,fee", "swap,fee", "swap", "fee", "", "fee,fee", "swap,swap", "fee,swap,fee", "swap,fee,swap"})
	tr := kit.Transfer{Channel: ch, Denom: denom, Amount: A.String()}
	running, amt := denom, new(big.Int).Set(A)
	if order != "" {
		for _, k := range strings.Split(order, ",") {
			switch k {
			case "fee":
				fees := kit.ValidFees(t, fmt.Sprintf("fees%d", len(tr.Actions)), amt, []string{"plain", "plain-upper"})
				if kit.Chance(t, fmt.Sprintf("fees%d/refusing", len(tr.Actions)), 15) {
					// a fee list the statement of C04 refuses, at this position of the list
					r := kit.PlainUser(t, fmt.Sprintf("fees%d/refusing/rcpt", len(tr.Actions)))
					switch pick(t, fmt.Sprintf("fees%d/refusing/how", len(tr.Actions)), []string{"all-bps", "fixed-all", "fixed-above", "zero-bps", "bps-above"}) {
					case "all-bps":
						fees = []kit.Fee{{Recipient: r, Bps: 10000}}
					case "fixed-all":
						fees = []kit.Fee{{Recipient: r, Fixed: amt.String()}}
					case "fixed-above":
						fees = []kit.Fee{{Recipient: r, Fixed: new(big.Int).Add(amt, big.NewInt(1)).String()}}
					case "zero-bps":
						fees = append(fees[:min(len(fees), kit.MaxFeeEntries-1)], kit.Fee{Recipient: r, Bps: 0})
					default:
						fees = append(fees[:min(len(fees), kit.MaxFeeEntries-1)], kit.Fee{Recipient: r, Bps: 10001})
					}
				}
				tr.Actions = append(tr.Actions, kit.Action{Kind: "fee", Fees: fees})
				if v := kit.ModelFees(amt, fees); v.Remaining.Sign() > 0 {
					amt = v.Remaining
				}
			case "swap":
				tr.Actions = append(tr.Actions, kit.Action{Kind: "swap"})
				running, amt = world.SwapDenom, kit.SwapOut(amt)
			}
		}
	}
	tr.Route = kit.GenRoute(t, w, running, kit.RouteOpt{EnvValid: true, InternalClasses: []string{"plain"}})
	if running == world.SwapDenom && kit.Chance(t, "cctp-after-swap", 20) {
		// CCTP cannot burn the swap output and will refuse; what it is ASKED to burn is recorded
		tr.Route = kit.GenRoute(t, w, running, kit.RouteOpt{Kinds: []string{"cctp"}})
	}
	if tr.Route.Kind == "cctp" && amt.Cmp(big.NewInt(world.BurnLimit)) > 0 {
		tr.Route = kit.Route{Kind: "internal", To: kit.PlainUser(t, "to")}
	}
	crossed := false
	if _, has := w.HypToken[running]; (has || running == world.SwapDenom) && kit.Chance(t, "crossed", 8) {
		tr.Route, _ = kit.CrossedTokenRoute(t, w, "crossed", running)
		crossed = true
	}
	c := caseC06{Transfer: tr, Crossed: crossed}
	if kit.Chance(t, "dust", 25) && denom != world.Uhuge {
		c.Dust = "777"
	}
	if kit.Chance(t, "paused", 15) {
		c.Paused = pick(t, "paused/which", []string{"fee", "swap"})
	}
	if kit.Chance(t, "out-dust", 12) {
		c.OutDust = pick(t, "out-dust/amount", []string{"1", "7", "1000000", amt.String()})
		rec := c.OutDust
		if v, ok := new(big.Int).SetString(rec, 10); !ok || v.Sign() <= 0 || v.BitLen() > 200 {
			c.OutDust = "7"
		}
	}
	return c
}

func TestC06Orders(t *testing.T) {
	l := lab(t)
	rec := kit.NewRecorder(t, "C06")
	rapid.Check(t, func(rt *rapid.T) {
		c := genC06(rt, l)
		rec.Eval()
		if err := runC06(l, c, rec); err != nil {
			rec.Fail(rt, c, "%v", err)
		}
	})
	for _, o := range []string{"[fee,swap]", "[swap,fee]", "[swap]", "[fee]", "[fee,fee]", "[swap,swap]"} {
		rec.Require("order", o, 10)
	}
	rec.Require("c06", "success", 50)
	rec.Require("c06", "refusing action in a list of two or more", 10)
	rec.Require("c06", "paused action in a list of two or more", 10)
}

func init() {
	kit.RegisterReplay("TestC06Orders", func(raw json.RawMessage) error {
		c, err := decode[caseC06](raw)
		if err != nil {
			return fmt.Errorf("harness: %w", err)
		}
		if labW == nil {
			if labW, labErr = world.NewLab(prodW); labErr != nil {
				return fmt.Errorf("harness: %w", labErr)
			}
		}
		return runC06(labW, c, nil)
	})
}
