package props

import (
	"encoding/json"
	"fmt"
	"sync"
	"testing"

	"pgregory.net/rapid"

	"verif/harness/kit"
	"verif/harness/world"
)

// C19 with failing dependencies (LAB world). The error text that IBC commits is most at risk
// when the failure comes from somewhere unusual: a dependency that returns an error at the k-th
// call, or that panics before/after doing its work. One packet shape, one fault; the same case is
// executed on two independently built LAB instances and once more on the first: whether the
// receive path aborts (the host discards the transaction) or answers, and every byte of what it
// answers, must agree.

type caseC19Fault struct {
	Shape caseC03 `json:"shape"`
	Site  int     `json:"site"`           // index of the dependency call that fails
	Mode  string  `json:"mode,omitempty"` // "" = returns an error | "panic-before" | "panic-after"
}

var (
	lab2Once sync.Once
	lab2W    *world.Lab
	lab2Err  error
)

func lab2(t testing.TB) *world.Lab {
	w := prod2(t)
	lab2Once.Do(func() { lab2W, lab2Err = world.NewLab(w) })
	if lab2Err != nil {
		t.Fatalf("harness: building the second LAB world failed: %v", lab2Err)
	}
	return lab2W
}

func faultTranscript(l *world.Lab, c caseC19Fault) (string, int, bool, error) {
	w := l.W
	base, err := prepareC03(l, c.Shape)
	if err != nil {
		return "", 0, false, err
	}
	p, err := kit.BuildPacket(w.Cdc, c.Shape.Transfer, false)
	if err != nil {
		return "", 0, false, fmt.Errorf("harness: %w", err)
	}
	ctx, _ := base.CacheContext()
	var s *world.Session
	switch c.Mode {
	case "panic-before":
		s = l.BeginPanic(c.Site, false)
	case "panic-after":
		s = l.BeginPanic(c.Site, true)
	default:
		s = l.Begin(c.Site)
	}
	out := world.Recv(ctx, l.Stack, p)
	l.Begin()
	fired := false
	for _, cl := range s.Calls {
		if cl.Faulted {
			fired = true
		}
	}
	var line string
	if out.Panicked() {
		line = fmt.Sprintf("abort=%v", out.Panic)
	} else {
		line = fmt.Sprintf("ack=%s events=%s", out.AckBytes, world.EventsDigest(out.Events))
	}
	return line + " store=" + w.StoreDigest(ctx), len(s.Calls), fired, nil
}

func runC19Fault(la, lb *world.Lab, c caseC19Fault, rec *kit.Recorder) error {
	l1, n, fired, err := faultTranscript(la, c)
	if err != nil {
		return err
	}
	l2, _, _, err := faultTranscript(lb, c)
	if err != nil {
		return err
	}
	l3, _, _, err := faultTranscript(la, c)
	if err != nil {
		return err
	}
	mode := c.Mode
	if mode == "" {
		mode = "error"
	}
	if fired {
		rec.NonTrivial(kit.JSON(c))
		rec.Label("fault", mode+" fired")
		rec.Sample("fault/"+mode, map[string]any{"case": c, "calls": n, "transcript": trunc(l1)})
	} else {
		rec.Label("fault", "not reached")
	}
	if l1 != l2 {
		return fmt.Errorf("a failing dependency (%s at call %d): replay on a second instance differs:\n  first:  %s\n  second: %s", mode, c.Site, trunc(l1), trunc(l2))
	}
	if l1 != l3 {
		return fmt.Errorf("a failing dependency (%s at call %d): replay on the same instance differs:\n  first: %s\n  again: %s", mode, c.Site, trunc(l1), trunc(l3))
	}
	return nil
}

func TestC19LabFaults(t *testing.T) {
	la, lb := lab(t), lab2(t)
	rec := kit.NewRecorder(t, "C19")
	rapid.Check(t, func(rt *rapid.T) {
		c := caseC19Fault{Shape: genC03Shape(rt, la)}
		c.Site = rapid.IntRange(0, 9).Draw(rt, "site")
		c.Mode = pick(rt, "mode", []string{"", "panic-before", "panic-after"})
		rec.Eval()
		if err := runC19Fault(la, lb, c, rec); err != nil {
			rec.Fail(rt, c, "%v", err)
		}
	})
	for _, m := range []string{"error", "panic-before", "panic-after"} {
		rec.Require("fault", m+" fired", 10)
	}
}

func init() {
	kit.RegisterReplay("TestC19LabFaults", func(raw json.RawMessage) error {
		c, err := decode[caseC19Fault](raw)
		if err != nil {
			return fmt.Errorf("harness: %w", err)
		}
		if labW == nil {
			if labW, labErr = world.NewLab(prodW); labErr != nil {
				return fmt.Errorf("harness: %w", labErr)
			}
		}
		if prod2W == nil {
			if prod2W, prod2Err = world.New(world.Options{}); prod2Err != nil {
				return fmt.Errorf("harness: %w", prod2Err)
			}
		}
		if lab2W == nil {
			if lab2W, lab2Err = world.NewLab(prod2W); lab2Err != nil {
				return fmt.Errorf("harness: %w", lab2Err)
			}
		}
		return runC19Fault(labW, lab2W, c, nil)
	})
}
