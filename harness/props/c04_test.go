package props

import (
	"context"
	"encoding/json"
	"fmt"
	"math/big"
	"testing"

	"pgregory.net/rapid"

	"cosmossdk.io/log"
	sdkmath "cosmossdk.io/math"
	"github.com/cosmos/cosmos-sdk/runtime"
	sdk "github.com/cosmos/cosmos-sdk/types"

	actionctrl "github.com/noble-assets/orbiter/v2/controller/action"
	orbitertypes "github.com/noble-assets/orbiter/v2/types"
	"github.com/noble-assets/orbiter/v2/types/core"

	"verif/harness/kit"
	"verif/harness/world"
)

// C04 — fees are exact, computed on the incoming amount, and bounded.

type caseC04 struct {
	Amount string    `json:"amount"`
	Denom  string    `json:"denom"`
	Fees   []kit.Fee `json:"fees"`
	// Env: "clean" = an environment with no other reason to refuse (both directions of the
	// oracle apply); "any" = recipients of every class (only "listed reason => refused" and
	// exactness apply).
	Env string `json:"env"`
}

// memBank is a tiny in-memory bank for the direct variant.
type memBank struct {
	credits []kit.Credit
	failAt  int
}

func (b *memBank) BlockedAddr(sdk.AccAddress) bool { return false }

func (b *memBank) SendCoins(_ context.Context, from, to sdk.AccAddress, amt sdk.Coins) error {
	if len(amt) != 1 {
		return fmt.Errorf("memBank: %d coins", len(amt))
	}
	b.credits = append(b.credits, kit.Credit{Addr: to.String(), Amount: amt[0].Amount.BigInt()})
	return nil
}

func sumCredits(cs []kit.Credit) map[string]*big.Int {
	out := map[string]*big.Int{}
	for _, c := range cs {
		a := canon(c.Addr)
		if out[a] == nil {
			out[a] = new(big.Int)
		}
		out[a].Add(out[a], c.Amount)
	}
	return out
}

func sameCredits(a, b map[string]*big.Int) bool {
	if len(a) != len(b) {
		return false
	}
	for k, v := range a {
		if b[k] == nil || b[k].Cmp(v) != 0 {
			return false
		}
	}
	return true
}

func labelC04(c caseC04, v kit.FeeVerdict, rec *kit.Recorder) {
	A, _ := new(big.Int).SetString(c.Amount, 10)
	nontrivial := false
	bps := 0
	for _, f := range c.Fees {
		if !f.IsFixed() {
			bps++
			if f.Bps >= 1 && f.Bps <= 10000 {
				if r := new(big.Int).Mod(new(big.Int).Mul(A, big.NewInt(int64(f.Bps))), big.NewInt(10000)); r.Sign() != 0 {
					rec.Label("decisive", "rounding (A*bps not a multiple of 10000)")
					nontrivial = true
				}
			}
		}
	}
	if bps >= 2 {
		rec.Label("decisive", "non-compounding (>= 2 bps entries)")
		nontrivial = true
	}
	d := new(big.Int).Sub(v.Total, A)
	if d.CmpAbs(big.NewInt(1)) <= 0 {
		rec.Label("decisive", "total fee within 1 of the amount")
		nontrivial = true
	}
	if v.Total.BitLen() > 250 || A.BitLen() > 250 {
		rec.Label("decisive", "near 2^256")
		nontrivial = true
	}
	if len(c.Fees) >= 5 {
		rec.Label("decisive", ">= 5 entries")
		nontrivial = true
	}
	if nontrivial && len(c.Fees) >= 1 {
		rec.NonTrivial(kit.JSON(c))
	}
	switch {
	case v.DontCare:
		rec.Label("model", "don't-care ("+v.DontCareReason[9:]+")")
		rec.Sample("model don't-care", map[string]any{"case": c, "why": v.DontCareReason})
	case v.Refuse:
		rec.Label("model", "refuse")
		rec.Sample("model refuses", map[string]any{"case": c, "reason": v.Reason})
	default:
		rec.Label("model", "accept")
		rec.Sample("model accepts", map[string]any{"case": c, "total": v.Total.String(), "remaining": v.Remaining.String()})
	}
}

// judgeC04 applies the oracle given what the implementation did.
func judgeC04(c caseC04, v kit.FeeVerdict, accepted bool, credits map[string]*big.Int, forwarded *big.Int, rec *kit.Recorder) error {
	if v.Refuse && !v.DontCare {
		if accepted {
			return fmt.Errorf("the statement lists a reason to refuse (%s) but the fee action was accepted", v.Reason)
		}
		return nil
	}
	if !accepted {
		if !v.Refuse && !v.DontCare && c.Env == "clean" {
			return fmt.Errorf("a fee list the statement accepts (total %s < amount %s) was refused", v.Total, c.Amount)
		}
		return nil
	}
	if v.Refuse {
		// don't-care spelling/overflow combined with a listed reason: acceptance is undecided,
		// nothing to compare
		return nil
	}
	if v.AmbiguousValue {
		// an amount spelling with two readings was accepted: whichever reading was taken, what
		// was credited must be what was deducted
		total := new(big.Int)
		for _, x := range credits {
			total.Add(total, x)
		}
		A, _ := new(big.Int).SetString(c.Amount, 10)
		if new(big.Int).Add(total, forwarded).Cmp(A) != 0 {
			return fmt.Errorf("credits %v and the amount left %s do not add up to the amount %s", credits, forwarded, c.Amount)
		}
		rec.Label("verdict", "consistent (amount spelling with two readings)")
		return nil
	}
	want := sumCredits(v.Credits)
	if !sameCredits(want, credits) {
		return fmt.Errorf("fee credits are not exact: observed %v, expected %v", credits, want)
	}
	if forwarded.Cmp(v.Remaining) != 0 {
		return fmt.Errorf("amount left after fees is %s, expected amount - total = %s", forwarded, v.Remaining)
	}
	rec.Label("verdict", "exact")
	return nil
}

var feeLogger = log.NewNopLogger()

// runC04Direct drives FeeController.HandlePacket directly.
func runC04Direct(c caseC04, rec *kit.Recorder) error {
	A, ok := new(big.Int).SetString(c.Amount, 10)
	if !ok || A.Sign() <= 0 {
		return fmt.Errorf("harness: bad amount")
	}
	v := kit.ModelFees(A, c.Fees)
	labelC04(c, v, rec)
	bank := &memBank{}
	ctrl, err := actionctrl.NewFeeController(feeLogger, runtime.EventService{}, bank)
	if err != nil {
		return fmt.Errorf("harness: %w", err)
	}
	attr, err := core.NewTransferAttributes(core.PROTOCOL_IBC, "channel-0", c.Denom, sdkmath.NewIntFromBigInt(A))
	if err != nil {
		return fmt.Errorf("harness: %w", err)
	}
	act, err := kit.BuildAction(kit.Action{Kind: "fee", Fees: c.Fees}, false)
	if err != nil {
		return fmt.Errorf("harness: %w", err)
	}
	pkt := &orbitertypes.ActionPacket{TransferAttributes: attr, Action: act}
	ctx := sdk.Context{}.WithEventManager(sdk.NewEventManager())
	var herr error
	func() {
		defer func() {
			if r := recover(); r != nil {
				herr = fmt.Errorf("PANIC: %v", r)
			}
		}()
		herr = ctrl.HandlePacket(ctx, pkt)
	}()
	if herr != nil && len(herr.Error()) > 6 && herr.Error()[:6] == "PANIC:" {
		return fmt.Errorf("fee controller panicked: %v", herr)
	}
	accepted := herr == nil
	if !accepted && len(bank.credits) != 0 {
		// a refusal after some sends is only acceptable because the host rolls back; with the
		// in-memory bank nothing can fail after the first send, so this must not happen
		return fmt.Errorf("refused (%v) after paying %d fees", herr, len(bank.credits))
	}
	return judgeC04(c, v, accepted, sumCredits(bank.credits), attr.DestinationAmount().BigInt(), rec)
}

// runC04E2E sends the fee list through the memo on the real stack.
func runC04E2E(w *world.World, c caseC04, rec *kit.Recorder) error {
	A, _ := new(big.Int).SetString(c.Amount, 10)
	v := kit.ModelFees(A, c.Fees)
	labelC04(c, v, rec)
	to := world.Addr("frank").String()
	tr := kit.Transfer{Channel: 0, Denom: c.Denom, Amount: c.Amount,
		Actions: []kit.Action{{Kind: "fee", Fees: c.Fees}}, Route: kit.Route{Kind: "internal", To: to}}
	m := kit.NewMachine(w)
	o := m.Do(kit.Step{Packet: &tr})
	if o.BuildErr != nil {
		rec.Label("e2e", "unserialisable")
		return nil
	}
	if o.Out.Panicked() {
		return fmt.Errorf("panic: %v", o.Out.Panic)
	}
	accepted := o.Out.Success
	if !accepted && len(o.Delta) != 0 {
		return fmt.Errorf("refused but the ledger changed: %s", o.Delta)
	}
	// observed credits: every positive delta except the forwarding recipient's final amount
	credits := map[string]*big.Int{}
	forwarded := new(big.Int)
	if accepted {
		for _, cr := range v.Credits {
			a := canon(cr.Addr)
			credits[a] = nil
		}
		// the recipient account receives the forwarded amount (plus fees if it is a fee recipient)
		for k, d := range o.Delta {
			addr, denom := splitKey(k)
			if denom != c.Denom || addr == "supply" || addr == world.EscrowAddr(0).String() {
				continue
			}
			if d.Sign() > 0 {
				credits[addr] = new(big.Int).Set(d)
			}
		}
		for k, x := range credits {
			if x == nil {
				delete(credits, k)
			}
		}
		// split the forwarding recipient's delta into forwarded + fees using the escrow delta:
		// forwarded = A - sum(all other positive deltas) - (recipient's own fee share)
		want := sumCredits(v.Credits)
		rcpt := canon(to)
		total := new(big.Int)
		for k, x := range credits {
			if k != rcpt {
				total.Add(total, x)
			}
		}
		own := new(big.Int)
		if want[rcpt] != nil {
			own = want[rcpt]
		}
		if credits[rcpt] != nil {
			forwarded = new(big.Int).Sub(credits[rcpt], own)
			if own.Sign() > 0 {
				credits[rcpt] = new(big.Int).Set(own)
			} else {
				delete(credits, rcpt)
			}
		}
		// conservation: everything the escrow released went to fee recipients and the destination
		sum := new(big.Int).Add(total, forwarded)
		sum.Add(sum, own)
		if sum.Cmp(A) != 0 {
			return fmt.Errorf("escrow released %s but credits sum to %s (%s)", A, sum, o.Delta)
		}
	}
	return judgeC04(c, v, accepted, credits, forwarded, rec)
}

func splitKey(k string) (string, string) {
	for i := 0; i < len(k); i++ {
		if k[i] == '|' {
			return k[:i], k[i+1:]
		}
	}
	return k, ""
}

// genC04 constructs fee lists around the boundaries the statement names.
func genC04(t *rapid.T, env string, hugeOK bool) caseC04 {
	denom := world.Ufoo
	classes := []string{"small", "typical", "typical", "round"}
	if hugeOK {
		classes = append(classes, "huge", "anybits", "anybits", "word", "max")
		denom = world.Uhuge
	}
	var A *big.Int
	switch pick(t, "A/class", classes) {
	case "small":
		A = big.NewInt(int64(rapid.IntRange(1, 30).Draw(t, "A")))
		denom = world.Ufoo
	case "typical":
		A = big.NewInt(rapid.Int64Range(31, 1_000_000_000_000).Draw(t, "A"))
		denom = world.Ufoo
	case "round":
		A = big.NewInt(10000 * rapid.Int64Range(1, 1000).Draw(t, "A"))
		denom = world.Ufoo
	case "anybits":
		// any magnitude: the statement quantifies over all amounts up to 2^256-1
		A = kit.AnyBits(t, "A/any")
	case "word":
		// around the machine word sizes
		A = new(big.Int).Lsh(big.NewInt(1), pick(t, "A/wexp", []uint{31, 32, 53, 63, 64, 64, 127, 128}))
		A.Add(A, big.NewInt(int64(rapid.IntRange(-2, 2).Draw(t, "A/woff"))))
	case "huge":
		A = new(big.Int).Lsh(big.NewInt(1), uint(200+rapid.IntRange(0, 56).Draw(t, "A/exp")))
		A.Sub(A, big.NewInt(int64(rapid.IntRange(0, 3).Draw(t, "A/off"))))
	default:
		A = new(big.Int).Set(world.MaxUint256)
	}
	if A.Cmp(world.MaxUint256) > 0 {
		A = new(big.Int).Set(world.MaxUint256)
	}
	rcptClasses := []string{"plain"}
	if env == "any" {
		rcptClasses = kit.RecipientClasses
	}
	c := caseC04{Amount: A.String(), Denom: denom, Env: env}
	switch pick(t, "shape", []string{"valid", "valid", "boundary", "boundary", "hostile", "count", "overflow", "spelling"}) {
	case "spelling":
		// an otherwise valid list in which one fixed amount is written in a spelling on which
		// integer parsers disagree: whatever the module makes of it, validation and computation
		// must read the same number
		fees := kit.ValidFees(t, "fees", A, rcptClasses)
		if len(fees) >= kit.MaxFeeEntries {
			fees = fees[:kit.MaxFeeEntries-1]
		}
		r, _ := kit.Recipient(t, "spelling/rcpt", rcptClasses)
		at := rapid.IntRange(0, len(fees)).Draw(t, "spelling/at")
		fees = append(fees[:at], append([]kit.Fee{{Recipient: r, Fixed: kit.NumberSpelling(t, "spelling/v")}}, fees[at:]...)...)
		c.Fees = fees
	case "valid":
		c.Fees = kit.ValidFees(t, "fees", A, rcptClasses)
	case "boundary":
		// a valid list, then one fixed entry that brings the total to A + delta
		fees := kit.ValidFees(t, "fees", A, rcptClasses)
		if len(fees) >= kit.MaxFeeEntries {
			fees = fees[:kit.MaxFeeEntries-1]
		}
		v := kit.ModelFees(A, fees)
		delta := int64(pick(t, "delta", []int{-1, 0, 1, -2, 7}))
		last := new(big.Int).Sub(A, v.Total)
		last.Add(last, big.NewInt(delta))
		if last.Sign() > 0 && last.Cmp(world.MaxUint256) <= 0 {
			r, _ := kit.Recipient(t, "boundary/rcpt", rcptClasses)
			fees = append(fees, kit.Fee{Recipient: r, Fixed: last.String()})
		}
		c.Fees = fees
	case "hostile":
		c.Fees = genHostileFees(t)
		if env == "clean" {
			for i := range c.Fees {
				if _, err := sdkAddr(c.Fees[i].Recipient); err == nil {
					c.Fees[i].Recipient = kit.PlainUser(t, fmt.Sprintf("hostile/%d", i))
				}
			}
		}
	case "count":
		n := pick(t, "count/n", []int{5, 6, 6, 7})
		for i := 0; i < n; i++ {
			r, _ := kit.Recipient(t, fmt.Sprintf("count/%d", i), rcptClasses)
			c.Fees = append(c.Fees, kit.Fee{Recipient: r, Bps: uint32(rapid.IntRange(1, 100).Draw(t, fmt.Sprintf("count/%d/bps", i)))})
		}
	case "overflow":
		// A*bps around 2^256, and fixed amounts summing around 2^256
		r, _ := kit.Recipient(t, "of/rcpt", rcptClasses)
		if kit.Chance(t, "of/bps", 50) {
			q := new(big.Int).Quo(world.MaxUint256, A)
			b := new(big.Int).Add(q, big.NewInt(int64(rapid.IntRange(-1, 1).Draw(t, "of/off"))))
			if b.Sign() > 0 && b.Cmp(big.NewInt(10000)) <= 0 {
				c.Fees = []kit.Fee{{Recipient: r, Bps: uint32(b.Int64())}}
			} else {
				c.Fees = []kit.Fee{{Recipient: r, Bps: 10000}}
			}
		} else {
			half := new(big.Int).Lsh(big.NewInt(1), 255)
			c.Fees = []kit.Fee{{Recipient: r, Fixed: half.String()}, {Recipient: r, Fixed: new(big.Int).Sub(half, big.NewInt(int64(rapid.IntRange(0, 2).Draw(t, "of/sub")))).String()}}
		}
	}
	return c
}

func TestC04Direct(t *testing.T) {
	rec := kit.NewRecorder(t, "C04")
	rapid.Check(t, func(rt *rapid.T) {
		c := genC04(rt, "clean", true)
		rec.Eval()
		if err := runC04Direct(c, rec); err != nil {
			rec.Fail(rt, c, "%v", err)
		}
	})
	rec.Require("verdict", "exact", 100)
	rec.Require("model", "refuse", 100)
}

func TestC04EndToEnd(t *testing.T) {
	w := prod(t)
	rec := kit.NewRecorder(t, "C04")
	rapid.Check(t, func(rt *rapid.T) {
		env := pick(rt, "env", []string{"clean", "clean", "any"})
		c := genC04(rt, env, true)
		rec.Eval()
		rec.Label("env", env)
		if err := runC04E2E(w, c, rec); err != nil {
			rec.Fail(rt, c, "%v", err)
		}
	})
	rec.Require("verdict", "exact", 50)
	rec.Require("model", "refuse", 50)
}

func init() {
	kit.RegisterReplay("TestC04Direct", func(raw json.RawMessage) error {
		c, err := decode[caseC04](raw)
		if err != nil {
			return fmt.Errorf("harness: %w", err)
		}
		return runC04Direct(c, nil)
	})
	kit.RegisterReplay("TestC04EndToEnd", func(raw json.RawMessage) error {
		c, err := decode[caseC04](raw)
		if err != nil {
			return fmt.Errorf("harness: %w", err)
		}
		return runC04E2E(prodW, c, nil)
	})
}
