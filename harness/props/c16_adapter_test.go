package props

import (
	"encoding/json"
	"fmt"
	"testing"

	"pgregory.net/rapid"

	"verif/harness/kit"
	"verif/harness/light"
	"verif/harness/world"
)

// TestC16Adapter: the coin the adapter hands to the rest of the module is the coin the ICS-20
// application credits. The packet goes through IBCAdapter.ParsePacket alone (the point where the
// module "accepts" a packet and fixes the coin it will act on, compute fees on and record); the
// reference reading of the packet data is the ICS-20 application's own codec and its own integer
// and denomination functions (light.CheckPacket, the oracle of the native fuzz target). Whatever
// happens further down - even if a later balance check turns a disagreement into a refusal - the
// two readings of an accepted packet must agree.

type caseC16Adapter struct {
	Data    string `json:"data"`
	Port    string `json:"port"`
	Channel string `json:"channel"`
}

func runC16Adapter(c caseC16Adapter, rec *kit.Recorder) error {
	class, err := light.CheckPacket([]byte(c.Data), c.Port, c.Channel, light.AspectCoin)
	rec.Label("adapter", class)
	if class == "accepted" {
		rec.NonTrivial(c.Data + "|" + c.Port + "|" + c.Channel)
		rec.Sample("adapter/accepted", c)
	}
	return err
}

func TestC16Adapter(t *testing.T) {
	w := prod(t)
	rec := kit.NewRecorder(t, "C16")
	rapid.Check(t, func(rt *rapid.T) {
		g := genC16(rt)
		memo := validMemo(rt, w, world.Uusdc)
		amount := g.Amount
		if kit.Chance(rt, "amount/spelled", 60) {
			// every text an integer parser may or may not take: sign, radix prefixes, leading
			// zeros (octal in base 0), separators, white space
			amount = kit.NumberSpelling(rt, "amount/spelling")
		}
		bz, _ := json.Marshal(map[string]string{"denom": g.Denom, "amount": amount, "sender": world.ForeignSender, "receiver": world.OrbiterAddr.String(), "memo": memo})
		c := caseC16Adapter{Data: string(bz), Port: g.SrcPort, Channel: g.SrcChannel}
		rec.Eval()
		if err := runC16Adapter(c, rec); err != nil {
			rec.Fail(rt, c, "%v", err)
		}
	})
	rec.Require("adapter", "accepted", 100)
	rec.Require("adapter", "refused/orbiter", 100)
}

func init() {
	kit.RegisterReplay("TestC16Adapter", func(raw json.RawMessage) error {
		c, err := decode[caseC16Adapter](raw)
		if err != nil {
			return fmt.Errorf("harness: %w", err)
		}
		return runC16Adapter(c, nil)
	})
}
