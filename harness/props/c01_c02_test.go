package props

import (
	"encoding/json"
	"fmt"
	"math/big"
	"strings"
	"testing"

	"pgregory.net/rapid"

	"verif/harness/kit"
	"verif/harness/world"
)

// C01 — received funds never stay on the orbiter account.
// C02 — every successful transfer conserves value across the whole ledger.
//
// Both are invariants over packet steps of generated histories in the PROD world.

var receiverVariants = []string{"canonical", "upper", "mixed", "other-prefix", "padded", "plain", "dust", "truncated"}

func receiverVariant(t *rapid.T, class string) string {
	orb := world.OrbiterAddr.String()
	switch class {
	case "upper":
		return kit.Upper(orb)
	case "mixed":
		return strings.ToUpper(orb[:8]) + orb[8:]
	case "other-prefix":
		return kit.OtherPrefix(orb, "cosmos")
	case "padded":
		return orb + " "
	case "plain":
		return kit.PlainUser(t, "rcv/plain")
	case "dust":
		return world.DustAddr.String()
	case "truncated":
		return orb[:len(orb)-2]
	}
	return ""
}

// genBroadTransfer draws a constructed orbiter transfer over everything the properties quantify
// over: all routes (environment-valid or not), internal recipients including the orbiter account
// itself, fee recipients of every class, all denominations and amount classes.
func genBroadTransfer(t *rapid.T, w *world.World) kit.Transfer {
	tr := genBroadTransferNoPassthrough(t, w)
	if kit.Chance(t, "passthrough", 15) {
		// refused unless an earlier UpdateParams raised the limit (histories do that)
		tr.Route.Passthrough = make([]byte, pick(t, "passthrough/len", []int{1, 2, 8, 64, 1001}))
	}
	return tr
}

func genBroadTransferNoPassthrough(t *rapid.T, w *world.World) kit.Transfer {
	return kit.GenTransfer(t, w, kit.TransferOpt{
		Route: kit.RouteOpt{
			EnvValid:        chance(t, "envvalid", 85),
			InternalClasses: []string{"plain", "plain", "plain", "plain-upper", "orbiter", "orbiter-upper", "dust", "blacklisted", "fresh", "module-warp", "long32", "short2", "blocked-pool"},
		},
		FeeClasses:     []string{"plain", "plain", "plain", "plain-upper", "orbiter", "orbiter-upper", "dust", "blacklisted", "fresh", "module-warp", "long32", "short2", "blocked-pool"},
		MaxActions:     1,
		KeepBelowLimit: chance(t, "belowlimit", 90),
	})
}

func genMixedPacket(t *rapid.T, w *world.World) kit.Transfer {
	tr := genBroadTransfer(t, w)
	switch pick(t, "packet/class", []string{"orbiter", "orbiter", "orbiter", "orbiter", "orbiter", "orbiter", "receiver", "receiver", "mutated", "garbage", "spelled", "crossed-token", "unregistered-action", "unrouted-protocol", "foreign-coin", "case-fold-token"}) {
	case "case-fold-token":
		// a denomination that differs from another collateral token's denomination by letter case
		// only, routed through that other token (coins of it may sit on the account: mint_to_orbiter)
		tr.Denom = world.SwapDenomUpper
		tr.Actions = nil
		tr.Amount = fmt.Sprint(1 + rapid.IntRange(0, 999).Draw(t, "casefold/amount"))
		tr.Route = kit.Route{Kind: "hyp", TokenID: append([]byte{}, w.HypToken[world.SwapDenom]...), Domain: pick(t, "casefold/domain", world.HypDomains), Recipient: kit.Bytes32(t, "casefold/rcpt")}
	case "foreign-coin":
		// a coin that is not a Noble-native coin on its way back (native of the sender's chain, or
		// a voucher with a longer trace), addressed to the orbiter account with a valid payload
		d := pick(t, "foreign/denom", []string{"uatom", "uosmo", "transfer/channel-99/uatom", world.ReturnDenom(tr.Channel, "transfer/channel-5/uusdc"), "ibc/ABC", "wasm.contract/channel-3/utoken"})
		tr.RawDenom = &d
	case "unrouted-protocol":
		// a protocol identifier that is valid (and can be paused) but has no forwarding controller
		// in the application's wiring, over attributes of a registered type
		id := int32(pick(t, "unrouted/id", []int{1, 1, 1, 0, 5}))
		tr.Route.ProtoID = &id
	case "unregistered-action":
		// ACTION_SWAP can be paused and unpaused but the application registers no controller for it
		if kit.Chance(t, "unregistered/before", 50) {
			tr.Actions = append([]kit.Action{{Kind: "swap"}}, tr.Actions...)
		} else {
			tr.Actions = append(tr.Actions, kit.Action{Kind: "swap"})
		}
	case "crossed-token":
		// small amounts, so that a balance left on the orbiter account by a deposit could pay for it
		tr.Route, _ = kit.CrossedTokenRoute(t, w, "crossed", tr.Denom)
		tr.Amount = fmt.Sprint(1 + rapid.IntRange(0, 999).Draw(t, "crossed/amount"))
		tr.Actions = nil
	case "spelled":
		// the same transfer with the packet data written in a JSON spelling on which decoders
		// disagree (kit.SpellPacketData); whatever each layer reads, nothing may stay on the
		// orbiter account and value must be conserved
		if memo, err := kit.BuildMemo(w.Cdc, tr, false); err == nil {
			f := kit.PacketFields{Denom: world.ReturnDenom(tr.Channel, tr.Denom), Amount: tr.Amount, Sender: world.ForeignSender, Receiver: world.OrbiterAddr.String(), Memo: memo}
			alt := kit.PlainUser(t, "spelled/alt")
			if kit.Chance(t, "spelled/foreign-first", 30) {
				f.Receiver, alt = alt, f.Receiver
			}
			text, _ := kit.SpellPacketData(t, "spelled", f, alt)
			tr.RawData = []byte(text)
		}
	case "receiver":
		tr.Receiver = receiverVariant(t, pick(t, "rcv/class", receiverVariants[1:]))
	case "mutated":
		memo, err := kit.BuildMemo(w.Cdc, tr, false)
		if err == nil {
			if tree, err := kit.ParseJSON(memo); err == nil {
				kit.Mutate(t, tree)
				m := tree.String()
				tr.RawMemo = &m
			}
		}
	case "garbage":
		m := pick(t, "garbage/memo", []string{"", "{}", "null", `{"orbiter":{}}`, `{"forward":{"receiver":"x"}}`, "not json"})
		tr.RawMemo = &m
	}
	return tr
}

func historyOptMixed(w *world.World, maxSteps int) kit.HistOpt {
	return kit.HistOpt{
		MinSteps: 1, MaxSteps: maxSteps,
		PacketW: 70, AdminW: 15, EnvW: 15,
		Packet: func(t *rapid.T) kit.Transfer { return genMixedPacket(t, w) },
		Admin:  kit.AdminOpt{ForeignSignerPct: 10, InvalidPct: 10},
	}
}

func maxSteps() int {
	if thorough() {
		return 60
	}
	return 25
}

// ---------------------------------------------------------------------------------------------

func transferClassKey(t kit.Transfer, o kit.Obs) string {
	fees := 0
	if len(t.Actions) > 0 {
		fees = len(t.Actions[0].Fees)
	}
	outcome := "error"
	if o.Out.Success {
		outcome = "success"
	}
	return fmt.Sprintf("%s|%s|%s|to=%s|fees=%d|dust=%v|%s|rcv=%s|raw=%v", t.Route.Kind, t.Denom, amountClass(t.AmountInt()),
		t.Route.To, fees, o.PreOrbiter != nil && o.PreOrbiter.Sign() > 0, outcome, t.Receiver, t.RawMemo != nil)
}

func amountClass(a *big.Int) string {
	switch {
	case a.Cmp(big.NewInt(20)) <= 0:
		return "small"
	case a.Cmp(big.NewInt(world.BurnLimit-3)) < 0:
		return "typical"
	case a.Cmp(big.NewInt(world.BurnLimit+3)) <= 0:
		return "burn-limit"
	default:
		return fmt.Sprintf("2^%d", a.BitLen())
	}
}

// checkC01Step is the C01 oracle for one packet step.
func checkC01Step(o kit.Obs, rec *kit.Recorder) error {
	t := *o.Step.Packet
	if o.BuildErr != nil {
		return nil // the codec cannot even serialise this payload; nothing was delivered
	}
	if o.Out.Panicked() {
		rec.Label("c01", "panic(C14's subject)")
		return nil
	}
	orb := world.OrbiterAddr.String()
	addressed := t.RawData == nil && orbiterAddressed(t.ReceiverString())
	if addressed {
		rec.Label("c01", "orbiter-addressed")
	}
	if o.Out.Ack == nil {
		return fmt.Errorf("nil acknowledgement")
	}
	if !o.Out.Success {
		if !o.Out.ErrorAck() {
			return fmt.Errorf("unsuccessful acknowledgement is not an error acknowledgement: %q", o.Out.AckBytes)
		}
		if len(o.Delta) != 0 {
			return fmt.Errorf("harness: an error acknowledgement left a ledger delta %s", o.Delta)
		}
		return nil
	}
	// success: no denom may have grown on the orbiter account, whatever the packet was
	for k, d := range o.Delta {
		if strings.HasPrefix(k, orb+"|") && d.Sign() > 0 {
			return fmt.Errorf("success acknowledgement and the orbiter account grew: %s (+%s)", k, d)
		}
	}
	if addressed && kit.Constructed(t) {
		A := t.AmountInt()
		got := o.Delta.Get(world.EscrowAddr(t.Channel).String(), t.Denom)
		if got.Cmp(new(big.Int).Neg(A)) != 0 {
			return fmt.Errorf("success but the channel escrow changed by %s, not -%s", got, A)
		}
	}
	return nil
}

type caseHistory struct {
	History kit.History `json:"history"`
}

func runC01(w *world.World, c caseHistory, rec *kit.Recorder) error {
	m := kit.NewMachine(w)
	for i, s := range c.History {
		o := m.Do(s)
		rec.Label("step", s.Kind())
		if s.Packet == nil {
			continue
		}
		t := *s.Packet
		if t.RawData == nil && orbiterAddressed(t.ReceiverString()) && o.BuildErr == nil {
			rec.NonTrivial(transferClassKey(t, o))
			rec.Label("route", t.Route.Kind)
			if o.Out.Success {
				rec.Label("outcome", "success")
				rec.Sample("success/"+t.Route.Kind, t)
			} else {
				rec.Label("outcome", "refused")
			}
			if t.Receiver != "" {
				rec.Label("receiver", "non-canonical spelling that decodes to the orbiter account")
			}
		}
		if err := checkC01Step(o, rec); err != nil {
			return fmt.Errorf("step %d (%s): %w", i, kit.JSON(s), err)
		}
	}
	return nil
}

func TestC01History(t *testing.T) {
	w := prod(t)
	rec := kit.NewRecorder(t, "C01")
	opt := historyOptMixed(w, maxSteps())
	rapid.Check(t, func(rt *rapid.T) {
		c := caseHistory{History: kit.GenHistory(rt, opt)}
		if kit.Chance(rt, "huge", 12) {
			// the 2^256-1-supply denom crossing one route repeatedly (funds re-escrowed in
			// between): the statistics reach their 256-bit bound and can no longer be recorded;
			// the funds must still leave the account or be refunded
			c.History = genHugeHistory(rt, w)
			rec.Label("history", "huge amounts on one route")
		}
		rec.Eval()
		if err := runC01(w, c, rec); err != nil {
			rec.Fail(rt, c, "%v", err)
		}
	})
	rec.Require("outcome", "success", 20)
	rec.Require("outcome", "refused", 20)
}

// ---------------------------------------------------------------------------------------------

// checkC02Step is the C02 oracle for one packet step.
func checkC02Step(w *world.World, o kit.Obs, rec *kit.Recorder) error {
	t := *o.Step.Packet
	if o.BuildErr != nil || o.Out.Panicked() || !o.Out.Success {
		return nil
	}
	if t.RawData != nil || !orbiterAddressed(t.ReceiverString()) {
		return nil
	}
	// model-free part: per denom the account deltas sum to the supply delta
	sums := map[string]*big.Int{}
	supply := map[string]*big.Int{}
	for k, d := range o.Delta {
		i := strings.Index(k, "|")
		addr, denom := k[:i], k[i+1:]
		if addr == "supply" {
			supply[denom] = d
			continue
		}
		if sums[denom] == nil {
			sums[denom] = new(big.Int)
		}
		sums[denom].Add(sums[denom], d)
	}
	for denom, s := range sums {
		want := supply[denom]
		if want == nil {
			want = new(big.Int)
		}
		if s.Cmp(want) != 0 {
			return fmt.Errorf("denom %s: account deltas sum to %s but supply changed by %s", denom, s, want)
		}
	}
	for denom, s := range supply {
		if sums[denom] == nil && s.Sign() != 0 {
			// supply changed with no account delta at all is possible only with a zero sum
			return fmt.Errorf("denom %s: supply changed by %s without any account delta", denom, s)
		}
		if s.Sign() > 0 {
			return fmt.Errorf("denom %s: supply grew by %s", denom, s)
		}
	}
	// whatever the memo was: a success acknowledgement for a packet to the orbiter account means
	// the released coin has been handed on in full, so the account cannot have gained anything
	for k, d := range o.Delta {
		if addr, denom := splitKey(k); addr == world.OrbiterAddr.String() && d.Sign() > 0 {
			return fmt.Errorf("success acknowledgement, yet %s %s of the released coin are still on the orbiter account: fee credits plus the outgoing amount do not add up to what the escrow released", d, denom)
		}
	}
	if !kit.Constructed(t) {
		rec.Label("c02", "success of a mutated payload (model-free part only)")
		return nil
	}
	run := o.Run
	if run.Refuse && !run.DontCare {
		// C04's subject; here only conservation is demanded, and the expected delta below would
		// be meaningless.
		rec.Label("c02", "model refuses, implementation accepted (C04's subject)")
		return nil
	}
	if run.Amount.Sign() <= 0 {
		return fmt.Errorf("success with a non-positive forwarded amount %s", run.Amount)
	}
	// the orbiter account is only a conduit: apart from the sweep of what sat there before, its
	// balance must not change in any denomination ("no other account's balance changes")
	orb := world.OrbiterAddr.String()
	for k, d := range o.Delta {
		addr, denom := splitKey(k)
		if addr != orb {
			continue
		}
		wantOrb := new(big.Int)
		if denom == t.Denom && o.PreOrbiter != nil {
			wantOrb = new(big.Int).Neg(o.PreOrbiter)
		}
		if d.Cmp(wantOrb) != 0 {
			return fmt.Errorf("successful transfer changed the orbiter account's %s balance by %s (expected %s: only the sweep of the pre-existing balance)", denom, d, wantOrb)
		}
	}
	if o.PreOrbiter != nil && o.PreOrbiter.Sign() > 0 && o.Delta.Get(orb, t.Denom).Sign() == 0 {
		return fmt.Errorf("the pre-existing orbiter balance of %s %s was not swept", o.PreOrbiter, t.Denom)
	}
	want := kit.ExpectedDelta(w, t, run, o.PreOrbiter)
	if !want.Equal(o.Delta) {
		return fmt.Errorf("ledger delta differs from the model\n  observed: %s\n  expected: %s", o.Delta, want)
	}
	rec.Label("c02", "exact delta matched")
	return nil
}

func runC02(w *world.World, c caseHistory, rec *kit.Recorder) error {
	m := kit.NewMachine(w)
	for i, s := range c.History {
		o := m.Do(s)
		if s.Packet == nil {
			continue
		}
		t := *s.Packet
		if o.Out.Success && t.RawData == nil && orbiterAddressed(t.ReceiverString()) {
			rec.NonTrivial(transferClassKey(t, o))
			rec.Label("route", t.Route.Kind)
			rec.Label("amount", amountClass(t.AmountInt()))
			if o.PreOrbiter != nil && o.PreOrbiter.Sign() > 0 {
				rec.Label("dust", "pre-existing balance swept")
			}
			rec.Sample("success/"+t.Route.Kind, map[string]any{"transfer": t, "delta": o.Delta.String()})
		}
		if err := checkC02Step(w, o, rec); err != nil {
			return fmt.Errorf("step %d (%s): %w", i, kit.JSON(s), err)
		}
	}
	return nil
}

func TestC02History(t *testing.T) {
	w := prod(t)
	rec := kit.NewRecorder(t, "C02")
	opt := historyOptMixed(w, maxSteps())
	rapid.Check(t, func(rt *rapid.T) {
		var c caseHistory
		if kit.Chance(rt, "huge", 12) {
			// the 2^256-1-supply denom crossing one route repeatedly (funds re-escrowed in
			// between): statistics reach their 256-bit bound, conservation must still hold
			c.History = genHugeHistory(rt, w)
			rec.Label("history", "huge amounts on one route")
		} else {
			c.History = kit.GenHistory(rt, opt)
		}
		rec.Eval()
		if err := runC02(w, c, rec); err != nil {
			rec.Fail(rt, c, "%v", err)
		}
	})
	rec.Require("c02", "exact delta matched", 30)
	rec.Require("route", "cctp", 5)
	rec.Require("route", "hyp", 5)
	rec.Require("route", "internal", 5)
}

func init() {
	kit.RegisterReplay("TestC01History", func(raw json.RawMessage) error {
		c, err := decode[caseHistory](raw)
		if err != nil {
			return fmt.Errorf("harness: %w", err)
		}
		return runC01(prodW, c, nil)
	})
	kit.RegisterReplay("TestC02History", func(raw json.RawMessage) error {
		c, err := decode[caseHistory](raw)
		if err != nil {
			return fmt.Errorf("harness: %w", err)
		}
		return runC02(prodW, c, nil)
	})
}
