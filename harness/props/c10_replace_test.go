package props

import (
	"bytes"
	"encoding/json"
	"fmt"
	"testing"

	cctptypes "github.com/circlefin/noble-cctp/x/cctp/types"
	ethcrypto "github.com/ethereum/go-ethereum/crypto"
	"pgregory.net/rapid"

	forwardertypes "github.com/noble-assets/orbiter/v2/types/component/forwarder"

	"verif/harness/kit"
	"verif/harness/world"
)

// C10, the deposit-replacement message with REAL valid content: an orbiter CCTP transfer is made,
// its MessageSent bytes are attested with the harness attester key, and the replacement is sent
// (a) by the authority - it must succeed whatever the module's own pause state is (the statement:
// "signed by the authority with valid content it succeeds"; the pauses govern forwardings, not the
// authority's messages) - and (b) by anybody else - it must fail and change nothing.

type caseC10Replace struct {
	Domain uint32 `json:"domain"`
	Amount string `json:"amount"`
	Signer string `json:"signer"` // "" = the authority
	// Pauses are admin steps the authority performs between the transfer and the replacement.
	Pauses    []kit.Admin `json:"pauses,omitempty"`
	NewMint   []byte      `json:"new_mint"`
	NewCaller []byte      `json:"new_caller"`
}

func runC10Replace(w *world.World, c caseC10Replace, rec *kit.Recorder) error {
	ctx := w.Branch()
	tr := kit.Transfer{Channel: 0, Denom: world.Uusdc, Amount: c.Amount, Route: kit.Route{Kind: "cctp", Domain: c.Domain, MintRecipient: kit.Fill32(1)}}
	p, err := kit.BuildPacket(w.Cdc, tr, false)
	if err != nil {
		return fmt.Errorf("harness: %w", err)
	}
	out := world.Recv(ctx, w.Stack, p)
	if !out.Success {
		return fmt.Errorf("harness: the preparatory CCTP transfer failed: %s", out.String())
	}
	sent, ok := findTyped[*cctptypes.MessageSent](out.Events)
	if !ok {
		return fmt.Errorf("harness: no MessageSent event")
	}
	sig, err := ethcrypto.Sign(ethcrypto.Keccak256(sent.Message), w.AttesterKey)
	if err != nil {
		return fmt.Errorf("harness: %w", err)
	}
	sig[64] += 27
	for _, a := range c.Pauses {
		msg, err := kit.BuildAdmin(a)
		if err != nil {
			return fmt.Errorf("harness: %w", err)
		}
		if r := w.Tx(ctx, msg); !r.OK() {
			return fmt.Errorf("harness: %s failed: %v", a.Kind, r.Err)
		}
	}
	signer := c.Signer
	if signer == "" {
		signer = world.Authority
	}
	before := w.StoreDigest(ctx)
	res := w.Tx(ctx, &forwardertypes.MsgReplaceDepositForBurn{
		Signer: signer, OriginalMessage: sent.Message, OriginalAttestation: sig,
		NewDestinationCaller: c.NewCaller, NewMintRecipient: c.NewMint,
	})
	after := w.StoreDigest(ctx)
	state := "nothing paused"
	if len(c.Pauses) > 0 {
		state = "with pauses in force"
	}
	if signer == world.Authority {
		rec.Label("replace", "authority, "+state)
		rec.NonTrivial(kit.JSON(c))
		rec.Sample("replace/authority", c)
		if !res.OK() {
			return fmt.Errorf("ReplaceDepositForBurn signed by the authority with valid content (an attested orbiter deposit), %s %s, failed: %v", state, kit.JSON(c.Pauses), res.Err)
		}
		dep, ok := findTyped[*cctptypes.DepositForBurn](res.Events)
		if !ok || !bytes.Equal(dep.MintRecipient, c.NewMint) || !bytes.Equal(dep.DestinationCaller, c.NewCaller) {
			return fmt.Errorf("the replacement did not reach CCTP with its fields (event found: %v)", ok)
		}
		return nil
	}
	if a, err := sdkAddr(signer); err == nil && a == world.Authority {
		rec.Label("replace", "another spelling of the authority (don't-care)")
		return nil
	}
	rec.Label("replace", "foreign signer, "+state)
	rec.NonTrivial(kit.JSON(c))
	if res.OK() {
		return fmt.Errorf("ReplaceDepositForBurn signed by %q succeeded", signer)
	}
	if before != after {
		return fmt.Errorf("ReplaceDepositForBurn signed by %q failed but changed state", signer)
	}
	return nil
}

func TestC10Replacement(t *testing.T) {
	w := prod(t)
	rec := kit.NewRecorder(t, "C10")
	rapid.Check(t, func(rt *rapid.T) {
		c := caseC10Replace{
			Domain:    pick(rt, "domain", []uint32{0, 1, 2, 3, 5}),
			Amount:    pick(rt, "amount", []string{"1", "1000", "999999999"}),
			NewMint:   kit.Bytes32(rt, "new-mint"),
			NewCaller: kit.Bytes32(rt, "new-caller"),
		}
		if kit.Chance(rt, "foreign", 35) {
			c.Signer = genSigner(rt)
		}
		dom := fmt.Sprint(c.Domain)
		for _, a := range []kit.Admin{
			{Kind: "pause_protocol", Protocol: "PROTOCOL_CCTP"},
			{Kind: "pause_cc", Protocol: "PROTOCOL_CCTP", Ids: []string{dom}},
			{Kind: "pause_protocol", Protocol: "PROTOCOL_IBC"},
			{Kind: "pause_cc", Protocol: "PROTOCOL_IBC", Ids: []string{"channel-0"}},
			{Kind: "pause_action", Action: "ACTION_FEE"},
			{Kind: "pause_protocol", Protocol: "PROTOCOL_INTERNAL"},
		} {
			if kit.Chance(rt, "pause/"+a.Kind+a.Protocol+a.Action, 30) {
				c.Pauses = append(c.Pauses, a)
			}
		}
		rec.Eval()
		if err := runC10Replace(w, c, rec); err != nil {
			rec.Fail(rt, c, "%v", err)
		}
	})
	rec.Require("replace", "authority, with pauses in force", 20)
	rec.Require("replace", "foreign signer, with pauses in force", 10)
}

func init() {
	kit.RegisterReplay("TestC10Replacement", func(raw json.RawMessage) error {
		c, err := decode[caseC10Replace](raw)
		if err != nil {
			return fmt.Errorf("harness: %w", err)
		}
		return runC10Replace(prodW, c, nil)
	})
}
