package props

import (
	"bytes"
	"encoding/json"
	"fmt"
	"math/big"
	"strings"
	"testing"

	hyputil "github.com/bcp-innovations/hyperlane-cosmos/util"
	warptypes "github.com/bcp-innovations/hyperlane-cosmos/x/warp/types"
	cctptypes "github.com/circlefin/noble-cctp/x/cctp/types"
	abci "github.com/cometbft/cometbft/abci/types"
	ethcrypto "github.com/ethereum/go-ethereum/crypto"
	"pgregory.net/rapid"

	sdk "github.com/cosmos/cosmos-sdk/types"
	banktypes "github.com/cosmos/cosmos-sdk/x/bank/types"

	forwardercomp "github.com/noble-assets/orbiter/v2/keeper/component/forwarder"
	forwardertypes "github.com/noble-assets/orbiter/v2/types/component/forwarder"

	"verif/harness/kit"
	"verif/harness/world"
)

// C05 — the outgoing bridge request carries exactly the user's route and parameters.

type caseC05 struct {
	Transfer kit.Transfer `json:"transfer"`
}

func bridgeCalls(s *world.Session) []world.Call {
	var out []world.Call
	for _, c := range s.Calls {
		if isBridgeSite(c.Site) {
			out = append(out, c)
		}
	}
	return out
}

// checkRequest compares a recorded bridge request with the payload, field by field.
func checkRequest(t kit.Transfer, run kit.Running, call world.Call) error {
	orb := world.OrbiterAddr.String()
	r := t.Route
	F := run.Amount
	switch r.Kind {
	case "cctp":
		wantSite := "cctp"
		if len(r.DestCaller) > 0 {
			wantSite = "cctp-caller"
		}
		if call.Site != wantSite {
			return fmt.Errorf("payload names CCTP (caller set: %v) but the call went to %q", len(r.DestCaller) > 0, call.Site)
		}
		var from, burnToken string
		var amount *big.Int
		var domain uint32
		var mint, caller []byte
		switch m := call.Req.(type) {
		case *cctptypes.MsgDepositForBurn:
			from, burnToken, amount, domain, mint = m.From, m.BurnToken, m.Amount.BigInt(), m.DestinationDomain, m.MintRecipient
		case *cctptypes.MsgDepositForBurnWithCaller:
			from, burnToken, amount, domain, mint, caller = m.From, m.BurnToken, m.Amount.BigInt(), m.DestinationDomain, m.MintRecipient, m.DestinationCaller
		default:
			return fmt.Errorf("unexpected request type %T", call.Req)
		}
		switch {
		case from != orb:
			return fmt.Errorf("CCTP request From = %s, want the orbiter account", from)
		case burnToken != run.Denom:
			return fmt.Errorf("CCTP request BurnToken = %s, want the post-action denom %s", burnToken, run.Denom)
		case amount.Cmp(F) != 0:
			return fmt.Errorf("CCTP request Amount = %s, want the post-action amount %s", amount, F)
		case domain != r.Domain:
			return fmt.Errorf("CCTP request DestinationDomain = %d, want %d", domain, r.Domain)
		case !bytes.Equal(mint, r.MintRecipient):
			return fmt.Errorf("CCTP request MintRecipient = %x, want %x", mint, r.MintRecipient)
		case !bytes.Equal(caller, r.DestCaller):
			return fmt.Errorf("CCTP request DestinationCaller = %x, want %x", caller, r.DestCaller)
		}
	case "hyp":
		if call.Site != "hyp-remote-transfer" {
			return fmt.Errorf("payload names Hyperlane but the call went to %q", call.Site)
		}
		m := call.Req.(*warptypes.MsgRemoteTransfer)
		// the token the bridge is asked to move must be the token of the post-action denomination:
		// a request naming the token of another denomination asks warp to move other coins than
		// the transfer carries (every token of the environment is known to the harness)
		if w := prodW; w != nil {
			tokDenom := ""
			for d, id := range w.HypToken {
				if bytes.Equal(id, m.TokenId.Bytes()) {
					tokDenom = d
				}
			}
			if bytes.Equal(w.HypSynth, m.TokenId.Bytes()) {
				tokDenom = world.SynthDenom
			}
			if tokDenom != "" && tokDenom != run.Denom {
				return fmt.Errorf("the Hyperlane request names the token of %s while the transfer carries %s: the bridge is asked to move coins the transfer does not carry", tokDenom, run.Denom)
			}
		}
		gas := "0"
		if r.GasLimit != "" {
			gas = r.GasLimit
		}
		maxFeeAmt := "0"
		if r.MaxFeeAmount != "" {
			maxFeeAmt = r.MaxFeeAmount
		}
		switch {
		case m.Sender != orb:
			return fmt.Errorf("warp request Sender = %s, want the orbiter account", m.Sender)
		case !bytes.Equal(m.TokenId.Bytes(), r.TokenID):
			return fmt.Errorf("warp request TokenId = %x, want %x", m.TokenId.Bytes(), r.TokenID)
		case m.DestinationDomain != r.Domain:
			return fmt.Errorf("warp request DestinationDomain = %d, want %d", m.DestinationDomain, r.Domain)
		case !bytes.Equal(m.Recipient.Bytes(), r.Recipient):
			return fmt.Errorf("warp request Recipient = %x, want %x", m.Recipient.Bytes(), r.Recipient)
		case m.Amount.BigInt().Cmp(F) != 0:
			return fmt.Errorf("warp request Amount = %s, want the post-action amount %s", m.Amount, F)
		case len(r.HookID) == 0 && m.CustomHookId != nil:
			return fmt.Errorf("warp request CustomHookId = %x, want none", m.CustomHookId.Bytes())
		case len(r.HookID) != 0 && (m.CustomHookId == nil || !bytes.Equal(m.CustomHookId.Bytes(), r.HookID)):
			return fmt.Errorf("warp request CustomHookId = %v, want %x", m.CustomHookId, r.HookID)
		case m.GasLimit.String() != gas:
			return fmt.Errorf("warp request GasLimit = %s, want %s", m.GasLimit, gas)
		case m.MaxFee.Denom != r.MaxFeeDenom || m.MaxFee.Amount.String() != maxFeeAmt:
			return fmt.Errorf("warp request MaxFee = %s, want %s%s", m.MaxFee, maxFeeAmt, r.MaxFeeDenom)
		case m.CustomHookMetadata != r.HookMeta:
			return fmt.Errorf("warp request CustomHookMetadata = %q, want %q", m.CustomHookMetadata, r.HookMeta)
		}
	case "internal":
		if call.Site != "bank-send" {
			return fmt.Errorf("payload names the internal route but the call went to %q", call.Site)
		}
		m := call.Req.(*banktypes.MsgSend)
		switch {
		case m.FromAddress != orb:
			return fmt.Errorf("bank request FromAddress = %s, want the orbiter account", m.FromAddress)
		case m.ToAddress != r.To:
			return fmt.Errorf("bank request ToAddress = %s, want %s", m.ToAddress, r.To)
		case len(m.Amount) != 1 || m.Amount[0].Denom != run.Denom || m.Amount[0].Amount.BigInt().Cmp(F) != 0:
			return fmt.Errorf("bank request Amount = %s, want %s%s", m.Amount, F, run.Denom)
		}
	}
	return nil
}

func runC05Request(l *world.Lab, c caseC05, rec *kit.Recorder) error {
	w := l.W
	t := c.Transfer
	p, err := kit.BuildPacket(w.Cdc, t, false)
	if err != nil {
		return fmt.Errorf("harness: %w", err)
	}
	ctx := w.Branch()
	s := l.Begin()
	out := world.Recv(ctx, l.Stack, p)
	if out.Panicked() {
		return fmt.Errorf("panic: %v", out.Panic)
	}
	run := kit.RunActions(t.Denom, t.AmountInt(), t.Actions)
	calls := bridgeCalls(s)
	if len(calls) > 1 {
		return fmt.Errorf("%d bridge calls for one transfer: %v", len(calls), s.Sites())
	}
	if out.Success {
		rec.Label("outcome", "success/"+t.Route.Kind)
		if len(calls) != 1 || calls[0].Err != nil {
			return fmt.Errorf("success acknowledgement without exactly one completed bridge call: %v", s.Sites())
		}
	} else {
		rec.Label("outcome", "refused/"+t.Route.Kind)
	}
	if len(calls) == 1 {
		rec.NonTrivial(kit.JSON(t))
		rec.Sample("request/"+t.Route.Kind, map[string]any{"transfer": t, "request": fmt.Sprintf("%+v", calls[0].Req)})
		if err := checkRequest(t, run, calls[0]); err != nil {
			return err
		}
	}
	return nil
}

func genC05Transfer(t *rapid.T, l *world.Lab) kit.Transfer {
	w := l.W
	denom := pick(t, "denom", []string{world.Uusdc, world.Uusdc, world.Ufoo, world.Gamm, world.Uhuge})
	ch := rapid.IntRange(0, 3).Draw(t, "channel")
	if denom == world.Uhuge {
		ch = 0
	}
	A, _ := kit.Amount(t, "amount", denom)
	tr := kit.Transfer{Channel: ch, Denom: denom, Amount: A.String()}
	running := denom
	order := pick(t, "actions", []string{"", "fee", "fee", "swap", "fee,swap", "swap,fee"})
	if A.BitLen() > 250 && strings.Contains(order, "swap") {
		order = "fee" // the swap output would not fit in 256 bits
	}
	amt := new(big.Int).Set(A)
	for _, k := range strings.Split(order, ",") {
		switch k {
		case "fee":
			fees := kit.ValidFees(t, "fees", amt, []string{"plain"})
			tr.Actions = append(tr.Actions, kit.Action{Kind: "fee", Fees: fees})
			amt = kit.ModelFees(amt, fees).Remaining
		case "swap":
			tr.Actions = append(tr.Actions, kit.Action{Kind: "swap"})
			running, amt = world.SwapDenom, kit.SwapOut(amt)
		}
	}
	tr.Route = kit.GenRoute(t, w, running, kit.RouteOpt{EnvValid: kit.Chance(t, "envvalid", 85), InternalClasses: []string{"plain", "plain-upper", "fresh"}})
	if tr.Route.Kind == "cctp" && amt.Cmp(big.NewInt(world.BurnLimit)) > 0 && running == world.Uusdc {
		tr.Amount, tr.Actions = fmt.Sprint(world.BurnLimit), nil
	}
	if kit.Chance(t, "odd-bytes", 20) {
		// attribute values the constructors would refuse (other byte lengths): whatever the
		// chain does with them, a request that reaches a bridge must carry them unaltered
		ext := func(b []byte, l string) []byte {
			n := pick(t, l, []int{33, 40, 64, 31, 20, 0})
			out := make([]byte, n)
			copy(out, b)
			for i := len(b); i < n; i++ {
				out[i] = byte(0xA0 + i%7)
			}
			return out
		}
		switch tr.Route.Kind {
		case "cctp":
			if kit.Chance(t, "odd/mint", 50) {
				tr.Route.MintRecipient = ext(tr.Route.MintRecipient, "odd/mint/len")
			} else {
				tr.Route.DestCaller = ext(tr.Route.DestCaller, "odd/caller/len")
			}
		case "hyp":
			switch pick(t, "odd/hyp", []string{"recipient", "token", "hook"}) {
			case "recipient":
				tr.Route.Recipient = ext(tr.Route.Recipient, "odd/rcpt/len")
			case "token":
				tr.Route.TokenID = ext(tr.Route.TokenID, "odd/token/len")
			default:
				tr.Route.HookID = ext(w.HypHook, "odd/hook/len")
			}
		}
	}
	return tr
}

func TestC05Request(t *testing.T) {
	l := lab(t)
	rec := kit.NewRecorder(t, "C05")
	rapid.Check(t, func(rt *rapid.T) {
		c := caseC05{Transfer: genC05Transfer(rt, l)}
		rec.Eval()
		if err := runC05Request(l, c, rec); err != nil {
			rec.Fail(rt, c, "%v", err)
		}
	})
	for _, k := range kit.AllRouteKinds {
		rec.Require("outcome", "success/"+k, 10)
	}
}

// ---------------------------------------------------------------------------------------------
// Identifier x attribute-type matrix, enumerated exhaustively.

type caseC05Cell struct {
	ProtoID  int32  `json:"proto_id"`
	AttrKind string `json:"attr_kind"`
	Numeric  bool   `json:"numeric"`
	// action cell, when ActionID is set
	ActionCell bool   `json:"action_cell,omitempty"`
	ActionID   int32  `json:"action_id,omitempty"`
	ActionAttr string `json:"action_attr,omitempty"`
}

var matchingKind = map[int32]string{2: "cctp", 3: "hyp", 4: "internal"}

func cellTransfer(w *world.World, kind string) kit.Transfer {
	tr := kit.Transfer{Channel: 1, Denom: world.Uusdc, Amount: "1000000"}
	switch kind {
	case "cctp":
		tr.Route = kit.Route{Kind: "cctp", Domain: 0, MintRecipient: kit.Fill32(1)}
	case "hyp":
		tr.Route = kit.Route{Kind: "hyp", Domain: 1, TokenID: w.HypToken[world.Uusdc], Recipient: kit.Fill32(2)}
	default:
		tr.Route = kit.Route{Kind: "internal", To: world.Addr("alice").String()}
	}
	return tr
}

func numericEnums(memo string) string {
	for name, id := range kit.ProtocolNames {
		memo = strings.ReplaceAll(memo, `"protocol_id":"`+name+`"`, fmt.Sprintf(`"protocol_id":%d`, id))
	}
	for name, id := range kit.ActionNames {
		memo = strings.ReplaceAll(memo, `"id":"`+name+`"`, fmt.Sprintf(`"id":%d`, id))
	}
	return memo
}

func runC05Cell(l *world.Lab, c caseC05Cell, rec *kit.Recorder) error {
	w := l.W
	var tr kit.Transfer
	expectOK := false
	if !c.ActionCell {
		base := c.AttrKind
		if base == "fee" {
			base = "internal"
		}
		tr = cellTransfer(w, base)
		tr.Route.AttrKind = c.AttrKind
		id := c.ProtoID
		tr.Route.ProtoID = &id
		expectOK = matchingKind[c.ProtoID] == c.AttrKind
	} else {
		tr = cellTransfer(w, "internal")
	}
	memo, err := kit.BuildMemo(w.Cdc, tr, false)
	if err != nil {
		rec.Label("cell", "unserialisable")
		return nil
	}
	if c.ActionCell {
		// splice an action with the given identifier and attribute type into the memo
		attr := map[string]string{
			"fee":      `{"@type":"` + kit.URLFee() + `","fees_info":[]}`,
			"cctp":     `{"@type":"` + kit.URLCCTP() + `","destination_domain":0,"mint_recipient":"AQEBAQEBAQEBAQEBAQEBAQEBAQEBAQEBAQEBAQEBAQE="}`,
			"internal": `{"@type":"` + kit.URLInternal() + `","recipient":"` + world.Addr("alice").String() + `"}`,
			"none":     `null`,
		}[c.ActionAttr]
		action := fmt.Sprintf(`{"id":%d,"attributes":%s}`, c.ActionID, attr)
		memo = strings.Replace(memo, `"pre_actions":[]`, `"pre_actions":[`+action+`]`, 1)
		if !strings.Contains(memo, action) {
			return fmt.Errorf("harness: could not splice the action into %s", memo)
		}
		// PROD semantics: only the fee action with fee attributes has a controller
		expectOK = c.ActionID == 1 && c.ActionAttr == "fee"
	}
	if c.Numeric {
		memo = numericEnums(memo)
	}
	tr.RawMemo = &memo
	p, err := kit.BuildPacket(w.Cdc, tr, false)
	if err != nil {
		return fmt.Errorf("harness: %w", err)
	}
	// PROD stack: the chain as wired
	outP := world.Recv(w.Branch(), w.Stack, p)
	// LAB stack: the recorded calls (forwarding cells only: LAB registers a swap controller)
	s := l.Begin()
	outL := world.Recv(w.Branch(), l.Stack, p)
	if outP.Panicked() || outL.Panicked() {
		return fmt.Errorf("panic: %v %v", outP.Panic, outL.Panic)
	}
	rec.NonTrivial(kit.JSON(c))
	rec.Sample(fmt.Sprintf("cell/ok=%v", expectOK), map[string]any{"cell": c, "memo": memo, "ack": string(outP.AckBytes)})
	if expectOK {
		rec.Label("cell", "matching: must succeed")
		if !outP.Success {
			return fmt.Errorf("matching identifier and attributes were refused: %s", outP.AckBytes)
		}
		if !c.ActionCell {
			calls := bridgeCalls(s)
			if !outL.Success || len(calls) != 1 {
				return fmt.Errorf("LAB: matching cell: success=%v bridge calls=%v", outL.Success, s.Sites())
			}
			want := map[string][]string{"cctp": {"cctp", "cctp-caller"}, "hyp": {"hyp-remote-transfer"}, "internal": {"bank-send"}}[c.AttrKind]
			ok := false
			for _, x := range want {
				if calls[0].Site == x {
					ok = true
				}
			}
			if !ok {
				return fmt.Errorf("identifier %d routed to %q", c.ProtoID, calls[0].Site)
			}
		}
		return nil
	}
	rec.Label("cell", "mismatched or unsupported: must be refused")
	if outP.Success {
		return fmt.Errorf("mismatched or unsupported combination was accepted (success acknowledgement)")
	}
	if !outP.ErrorAck() {
		return fmt.Errorf("not an error acknowledgement: %q", outP.AckBytes)
	}
	if !c.ActionCell {
		if outL.Success {
			return fmt.Errorf("LAB: mismatched or unsupported combination was accepted")
		}
		if calls := bridgeCalls(s); len(calls) != 0 {
			return fmt.Errorf("a refused combination still reached a bridge: %v", s.Sites())
		}
	}
	return nil
}

func allCells() []caseC05Cell {
	var cells []caseC05Cell
	for _, id := range []int32{-1, 0, 1, 2, 3, 4, 5, 6, 2147483647} {
		for _, k := range []string{"cctp", "hyp", "internal", "fee"} {
			for _, numeric := range []bool{false, true} {
				cells = append(cells, caseC05Cell{ProtoID: id, AttrKind: k, Numeric: numeric})
			}
		}
	}
	for _, id := range []int32{-1, 0, 1, 2, 3, 99, 2147483647} {
		for _, k := range []string{"fee", "cctp", "internal", "none"} {
			cells = append(cells, caseC05Cell{ActionCell: true, ActionID: id, ActionAttr: k, Numeric: true})
		}
	}
	return cells
}

// TestC05Matrix enumerates every (identifier, attribute type) cell; no randomness.
func TestC05Matrix(t *testing.T) {
	l := lab(t)
	rec := kit.NewRecorder(t, "C05")
	for _, c := range allCells() {
		rec.Eval()
		if err := runC05Cell(l, c, rec); err != nil {
			rec.Fail(t, c, "%v", err)
		}
	}
	rec.Note("identifier x attribute-type matrix enumerated exhaustively: %d cells", len(allCells()))
	rec.Require("cell", "matching: must succeed", 6)
	rec.Require("cell", "mismatched or unsupported: must be refused", 60)
}

// ---------------------------------------------------------------------------------------------
// Deposit replacement: recorded request (LAB) and a real replacement (PROD).

type caseC05Replace struct {
	Signer      string `json:"signer,omitempty"`
	Message     []byte `json:"message"`
	Attestation []byte `json:"attestation"`
	NewCaller   []byte `json:"new_caller"`
	NewMint     []byte `json:"new_mint"`
}

func runC05Replace(l *world.Lab, c caseC05Replace, rec *kit.Recorder) error {
	signer := c.Signer
	if signer == "" {
		signer = world.Authority
	}
	srv := forwardercomp.NewMsgServer(l.Keeper.Forwarder(), l.Keeper)
	s := l.Begin()
	ctx := l.W.Branch()
	_, err := srv.ReplaceDepositForBurn(ctx, &forwardertypes.MsgReplaceDepositForBurn{
		Signer: signer, OriginalMessage: c.Message, OriginalAttestation: c.Attestation,
		NewDestinationCaller: c.NewCaller, NewMintRecipient: c.NewMint,
	})
	var calls []world.Call
	for _, cl := range s.Calls {
		if cl.Site == "cctp-replace" {
			calls = append(calls, cl)
		}
	}
	if signer != world.Authority {
		rec.Label("replace", "foreign signer")
		if err == nil || len(calls) != 0 {
			return fmt.Errorf("foreign signer %q: err=%v, CCTP calls=%d", signer, err, len(calls))
		}
		return nil
	}
	rec.Label("replace", "authority")
	rec.NonTrivial(kit.JSON(c))
	if len(calls) != 1 {
		return fmt.Errorf("authority-signed replacement reached CCTP %d times (err %v)", len(calls), err)
	}
	m := calls[0].Req.(*cctptypes.MsgReplaceDepositForBurn)
	switch {
	case m.From != world.OrbiterAddr.String():
		return fmt.Errorf("replacement reaches CCTP with From = %s, want the orbiter account", m.From)
	case !bytes.Equal(m.OriginalMessage, c.Message):
		return fmt.Errorf("OriginalMessage altered")
	case !bytes.Equal(m.OriginalAttestation, c.Attestation):
		return fmt.Errorf("OriginalAttestation altered")
	case !bytes.Equal(m.NewDestinationCaller, c.NewCaller):
		return fmt.Errorf("NewDestinationCaller = %x, want %x", m.NewDestinationCaller, c.NewCaller)
	case !bytes.Equal(m.NewMintRecipient, c.NewMint):
		return fmt.Errorf("NewMintRecipient = %x, want %x", m.NewMintRecipient, c.NewMint)
	}
	return nil
}

func TestC05Replace(t *testing.T) {
	l := lab(t)
	rec := kit.NewRecorder(t, "C05")
	rapid.Check(t, func(rt *rapid.T) {
		c := caseC05Replace{
			Message:     rapid.SliceOfN(rapid.Byte(), 0, 300).Draw(rt, "message"),
			Attestation: rapid.SliceOfN(rapid.Byte(), 0, 130).Draw(rt, "attestation"),
			NewCaller:   kit.Bytes32(rt, "caller"),
			NewMint:     kit.Bytes32(rt, "mint"),
		}
		if kit.Chance(rt, "foreign", 15) {
			c.Signer = world.Addr("alice").String()
		}
		rec.Eval()
		if err := runC05Replace(l, c, rec); err != nil {
			rec.Fail(rt, c, "%v", err)
		}
	})
}

// findTyped returns the first typed event of the given proto type.
func findTyped[T any](evs []abci.Event) (T, bool) {
	var zero T
	for _, e := range evs {
		msg, err := sdk.ParseTypedEvent(e)
		if err != nil {
			continue
		}
		if v, ok := msg.(T); ok {
			return v, true
		}
	}
	return zero, false
}

type caseC05Real struct {
	Transfer  kit.Transfer `json:"transfer"`
	NewCaller []byte       `json:"new_caller"`
	NewMint   []byte       `json:"new_mint"`
}

// runC05Events checks the PROD world's third-party events of a valid transfer and, for CCTP, a
// real deposit replacement attested with the harness attester key.
func runC05Events(w *world.World, c caseC05Real, rec *kit.Recorder) error {
	t := c.Transfer
	p, err := kit.BuildPacket(w.Cdc, t, true)
	if err != nil {
		return fmt.Errorf("harness: %w", err)
	}
	ctx := w.Branch()
	out := world.Recv(ctx, w.Stack, p)
	if out.Panicked() {
		return fmt.Errorf("panic: %v", out.Panic)
	}
	if !out.Success {
		rec.Label("events", "refused")
		return nil
	}
	run := kit.RunActions(t.Denom, t.AmountInt(), t.Actions)
	F := run.Amount
	orb := world.OrbiterAddr.String()
	rec.NonTrivial(kit.JSON(c))
	switch t.Route.Kind {
	case "cctp":
		ev, ok := findTyped[*cctptypes.DepositForBurn](out.Events)
		if !ok {
			return fmt.Errorf("successful CCTP transfer without a DepositForBurn event")
		}
		switch {
		case ev.Amount.BigInt().Cmp(F) != 0:
			return fmt.Errorf("DepositForBurn.amount = %s, want %s", ev.Amount, F)
		case ev.Depositor != orb:
			return fmt.Errorf("DepositForBurn.depositor = %s", ev.Depositor)
		case !bytes.Equal(ev.MintRecipient, t.Route.MintRecipient):
			return fmt.Errorf("DepositForBurn.mint_recipient = %x, want %x", ev.MintRecipient, t.Route.MintRecipient)
		case ev.DestinationDomain != t.Route.Domain:
			return fmt.Errorf("DepositForBurn.destination_domain = %d, want %d", ev.DestinationDomain, t.Route.Domain)
		case !bytes.Equal(ev.DestinationCaller, t.Route.DestCaller) && !(len(ev.DestinationCaller) == 0 && len(t.Route.DestCaller) == 0):
			return fmt.Errorf("DepositForBurn.destination_caller = %x, want %x", ev.DestinationCaller, t.Route.DestCaller)
		}
		sent, ok := findTyped[*cctptypes.MessageSent](out.Events)
		if !ok {
			return fmt.Errorf("successful CCTP transfer without a MessageSent event")
		}
		msg, err := new(cctptypes.Message).Parse(sent.Message)
		if err != nil {
			return fmt.Errorf("MessageSent does not parse: %v", err)
		}
		body, err := new(cctptypes.BurnMessage).Parse(msg.MessageBody)
		if err != nil {
			return fmt.Errorf("burn message does not parse: %v", err)
		}
		wantCaller := t.Route.DestCaller
		if len(wantCaller) == 0 {
			wantCaller = make([]byte, 32)
		}
		switch {
		case msg.DestinationDomain != t.Route.Domain:
			return fmt.Errorf("message destination domain %d, want %d", msg.DestinationDomain, t.Route.Domain)
		case !bytes.Equal(msg.DestinationCaller, wantCaller):
			return fmt.Errorf("message destination caller %x, want %x", msg.DestinationCaller, wantCaller)
		case !bytes.Equal(body.MintRecipient, t.Route.MintRecipient):
			return fmt.Errorf("burn message mint recipient %x, want %x", body.MintRecipient, t.Route.MintRecipient)
		case body.Amount.BigInt().Cmp(F) != 0:
			return fmt.Errorf("burn message amount %s, want %s", body.Amount, F)
		case !bytes.Equal(body.MessageSender[12:], world.OrbiterAddr.Bytes()):
			return fmt.Errorf("burn message sender %x is not the orbiter account", body.MessageSender)
		}
		rec.Label("events", "cctp events match")
		// real replacement through the application's message router, signed by the authority
		sig, err := ethcrypto.Sign(ethcrypto.Keccak256(sent.Message), w.AttesterKey)
		if err != nil {
			return fmt.Errorf("harness: %w", err)
		}
		sig[64] += 27
		res := w.Tx(ctx, &forwardertypes.MsgReplaceDepositForBurn{
			Signer: world.Authority, OriginalMessage: sent.Message, OriginalAttestation: sig,
			NewDestinationCaller: c.NewCaller, NewMintRecipient: c.NewMint,
		})
		if !res.OK() {
			return fmt.Errorf("authority-signed replacement of an orbiter deposit, attested by the configured attester, failed: %v", res.Err)
		}
		newDep, ok := findTyped[*cctptypes.DepositForBurn](res.Events)
		if !ok {
			return fmt.Errorf("replacement emitted no DepositForBurn event")
		}
		switch {
		case newDep.Nonce != ev.Nonce:
			return fmt.Errorf("replacement nonce %d, original %d", newDep.Nonce, ev.Nonce)
		case newDep.Amount.BigInt().Cmp(F) != 0:
			return fmt.Errorf("replacement amount %s, original %s", newDep.Amount, F)
		case !bytes.Equal(newDep.MintRecipient, c.NewMint):
			return fmt.Errorf("replacement mint recipient %x, want %x", newDep.MintRecipient, c.NewMint)
		case !bytes.Equal(newDep.DestinationCaller, c.NewCaller):
			return fmt.Errorf("replacement destination caller %x, want %x", newDep.DestinationCaller, c.NewCaller)
		case newDep.Depositor != orb:
			return fmt.Errorf("replacement depositor %s, want the orbiter account", newDep.Depositor)
		}
		rec.Label("events", "real replacement carries the new fields")
	case "hyp":
		ev, ok := findTyped[*warptypes.EventSendRemoteTransfer](out.Events)
		if !ok {
			return fmt.Errorf("successful Hyperlane transfer without an EventSendRemoteTransfer")
		}
		wantAmt := sdk.NewCoins(sdk.NewCoin(run.Denom, sdkInt(F))).String()
		switch {
		case ev.Sender != orb:
			return fmt.Errorf("EventSendRemoteTransfer.sender = %s", ev.Sender)
		case !bytes.Equal(ev.TokenId.Bytes(), t.Route.TokenID):
			return fmt.Errorf("EventSendRemoteTransfer.token_id = %s", ev.TokenId)
		case ev.DestinationDomain != t.Route.Domain:
			return fmt.Errorf("EventSendRemoteTransfer.destination_domain = %d, want %d", ev.DestinationDomain, t.Route.Domain)
		case !bytes.Equal(ev.Recipient.Bytes(), t.Route.Recipient):
			return fmt.Errorf("EventSendRemoteTransfer.recipient = %s, want %x", ev.Recipient, t.Route.Recipient)
		case ev.Amount != wantAmt:
			return fmt.Errorf("EventSendRemoteTransfer.amount = %s, want %s", ev.Amount, wantAmt)
		}
		rec.Label("events", "warp event matches")
	default:
		rec.Label("events", "internal (ledger checked by C02)")
	}
	return nil
}

var _ = hyputil.HexAddress{}

func TestC05Events(t *testing.T) {
	w := prod(t)
	rec := kit.NewRecorder(t, "C05")
	rapid.Check(t, func(rt *rapid.T) {
		tr := kit.GenTransfer(rt, w, kit.TransferOpt{
			Route: kit.RouteOpt{EnvValid: true, Kinds: []string{"cctp", "cctp", "hyp"}}, MaxActions: 1, KeepBelowLimit: true,
			Denoms: []string{world.Uusdc, world.Uusdc, world.Ufoo},
		})
		c := caseC05Real{Transfer: tr, NewCaller: kit.Bytes32(rt, "newcaller"), NewMint: kit.Bytes32(rt, "newmint")}
		rec.Eval()
		if err := runC05Events(w, c, rec); err != nil {
			rec.Fail(rt, c, "%v", err)
		}
	})
	rec.Require("events", "real replacement carries the new fields", 10)
	rec.Require("events", "warp event matches", 10)
}

func init() {
	getLab := func() (*world.Lab, error) {
		if labW == nil {
			labW, labErr = world.NewLab(prodW)
		}
		return labW, labErr
	}
	kit.RegisterReplay("TestC05Request", func(raw json.RawMessage) error {
		c, err := decode[caseC05](raw)
		if err != nil {
			return fmt.Errorf("harness: %w", err)
		}
		l, err := getLab()
		if err != nil {
			return fmt.Errorf("harness: %w", err)
		}
		return runC05Request(l, c, nil)
	})
	kit.RegisterReplay("TestC05Matrix", func(raw json.RawMessage) error {
		c, err := decode[caseC05Cell](raw)
		if err != nil {
			return fmt.Errorf("harness: %w", err)
		}
		l, err := getLab()
		if err != nil {
			return fmt.Errorf("harness: %w", err)
		}
		return runC05Cell(l, c, nil)
	})
	kit.RegisterReplay("TestC05Replace", func(raw json.RawMessage) error {
		c, err := decode[caseC05Replace](raw)
		if err != nil {
			return fmt.Errorf("harness: %w", err)
		}
		l, err := getLab()
		if err != nil {
			return fmt.Errorf("harness: %w", err)
		}
		return runC05Replace(l, c, nil)
	})
	kit.RegisterReplay("TestC05Events", func(raw json.RawMessage) error {
		c, err := decode[caseC05Real](raw)
		if err != nil {
			return fmt.Errorf("harness: %w", err)
		}
		return runC05Events(prodW, c, nil)
	})
}
