package props

import (
	"strings"
	"sync"

	abci "github.com/cometbft/cometbft/abci/types"
	sdk "github.com/cosmos/cosmos-sdk/types"
	gogoproto "github.com/cosmos/gogoproto/proto"
	"google.golang.org/protobuf/reflect/protoreflect"

	"verif/harness/world"
)

// Queries are read-only: serving them must not change anything a later transaction produces.
// serveAllQueries calls every RPC of every Query service the module registers (enumerated from
// the protobuf descriptors, so a query added later is included) with an empty request and with a
// few filled ones, on a throw-away branch; results and errors are ignored. C19 interleaves it with
// the steps of a history in ONE of two executions that must stay byte-identical.

var (
	queryPathsOnce sync.Once
	queryPaths     []string
)

func orbiterQueryPaths() []string {
	queryPathsOnce.Do(func() {
		gogoproto.HybridResolver.RangeFiles(func(fd protoreflect.FileDescriptor) bool {
			if !strings.HasPrefix(string(fd.Package()), "noble.orbiter") {
				return true
			}
			svcs := fd.Services()
			for i := 0; i < svcs.Len(); i++ {
				sd := svcs.Get(i)
				if sd.Name() != "Query" {
					continue
				}
				ms := sd.Methods()
				for j := 0; j < ms.Len(); j++ {
					queryPaths = append(queryPaths, "/"+string(sd.FullName())+"/"+string(ms.Get(j).Name()))
				}
			}
			return true
		})
	})
	return queryPaths
}

func serveAllQueries(w *world.World, ctx sdk.Context) int {
	n := 0
	for _, path := range orbiterQueryPaths() {
		h := w.App.GRPCQueryRouter().Route(path)
		if h == nil {
			continue
		}
		func() {
			defer func() { _ = recover() }()
			qctx, _ := ctx.CacheContext()
			_, _ = h(qctx.WithEventManager(sdk.NewEventManager()), &abci.RequestQuery{Path: path})
			n++
		}()
	}
	return n
}
