package props

import (
	"bytes"
	"encoding/json"
	"fmt"
	"sort"
	"testing"

	"pgregory.net/rapid"

	sdk "github.com/cosmos/cosmos-sdk/types"

	adaptertypes "github.com/noble-assets/orbiter/v2/types/component/adapter"
	executortypes "github.com/noble-assets/orbiter/v2/types/component/executor"

	"verif/harness/kit"
	"verif/harness/world"
)

// C09 — a paused action is never executed; payloads without it are unaffected.
// C18 — the passthrough payload size limit in force is enforced.

const (
	execQuery    = "/noble.orbiter.component.executor.v1.Query/"
	adapterQuery = "/noble.orbiter.component.adapter.v1.Query/"
)

func compareActionQueries(w *world.World, ctx sdk.Context, model *kit.State) error {
	var pa executortypes.QueryPausedActionsResponse
	if err := w.Query(ctx, execQuery+"PausedActions", &executortypes.QueryPausedActionsRequest{}, &pa); err != nil {
		return fmt.Errorf("PausedActions: %w", err)
	}
	got := map[int32]bool{}
	for _, a := range pa.ActionIds {
		if got[int32(a)] {
			return fmt.Errorf("PausedActions lists %v twice", a)
		}
		got[int32(a)] = true
	}
	if len(got) != len(model.PausedActions) {
		return fmt.Errorf("PausedActions returns %v, model %v", pa.ActionIds, model.PausedActions)
	}
	for name, id := range kit.ActionNames {
		var r executortypes.QueryIsActionPausedResponse
		if err := w.Query(ctx, execQuery+"IsActionPaused", &executortypes.QueryIsActionPausedRequest{ActionId: name}, &r); err != nil {
			return fmt.Errorf("IsActionPaused(%s): %w", name, err)
		}
		if r.IsPaused != model.PausedActions[id] || got[id] != model.PausedActions[id] {
			return fmt.Errorf("action %s: model paused=%v, IsActionPaused=%v, listed=%v", name, model.PausedActions[id], r.IsPaused, got[id])
		}
	}
	return nil
}

// unpauseAllActions builds S°: every action pause removed through the module's own message.
func unpauseAllActions(w *world.World, ctx sdk.Context, model *kit.State) (sdk.Context, error) {
	c, _ := ctx.CacheContext()
	var ids []int32
	for a := range model.PausedActions {
		ids = append(ids, a)
	}
	sort.Slice(ids, func(i, j int) bool { return ids[i] < ids[j] })
	for _, a := range ids {
		msg, _ := kit.BuildAdmin(kit.Admin{Kind: "unpause_action", Action: kit.ActionName(a)})
		if r := w.Tx(c, msg); !r.OK() {
			return c, fmt.Errorf("unpausing action %s, which the model and the queries report as paused, failed: %v", kit.ActionName(a), r.Err)
		}
	}
	if impl := kit.ReadImpl(w, c); len(impl.PausedActions) != 0 {
		return c, fmt.Errorf("after unpausing every paused action the exported state still has %v", impl.PausedActions)
	}
	return c, nil
}

func runC09(w *world.World, c caseHistory, rec *kit.Recorder) error {
	return runC09On(w, nil, c, rec)
}

// runC09On runs the C09 oracle on the application's own stack (l == nil) or on the LAB stack,
// where a second, denomination-changing action controller is registered under ACTION_SWAP.
func runC09On(w *world.World, l *world.Lab, c caseHistory, rec *kit.Recorder) error {
	m := kit.NewMachine(w)
	stack := w.Stack
	if l != nil {
		m.Stack, stack = l.Stack, l.Stack
	}
	for i, s := range c.History {
		at := fmt.Sprintf("step %d (%s)", i, kit.JSON(s))
		switch {
		case s.Admin != nil:
			o := m.Do(s)
			switch {
			case o.Verdict.DontCare:
				m.Model.SyncPause(m.Impl())
			case o.Verdict.OK && !o.Tx.OK():
				return fmt.Errorf("%s: the message must succeed but failed: %v", at, o.Tx.Err)
			case !o.Verdict.OK && o.Tx.OK():
				return fmt.Errorf("%s: the message must fail (%s) but succeeded", at, o.Verdict.Why)
			case o.Verdict.OK:
				rec.Label("admin", "applied")
			default:
				rec.Label("admin", "refused: "+classOfWhy(o.Verdict.Why))
			}
			if err := m.Model.ComparePause(m.Impl()); err != nil {
				return fmt.Errorf("%s: exported state differs from the model: %w", at, err)
			}
			if err := compareActionQueries(w, m.Ctx, m.Model); err != nil {
				return fmt.Errorf("%s: queries differ from the model: %w", at, err)
			}
		case s.Packet != nil:
			t := *s.Packet
			containsPaused := m.Model.ActionsPaused(t.Actions)
			clean, err := unpauseAllActions(w, m.Ctx, m.Model)
			if err != nil {
				return fmt.Errorf("%s: %w", at, err)
			}
			p, err := kit.BuildPacket(w.Cdc, t, false)
			if err != nil {
				return fmt.Errorf("harness: %w", err)
			}
			if l != nil {
				l.Begin()
			}
			beforeClean := w.Ledger(clean)
			outClean := world.Recv(clean, stack, p)
			deltaClean := world.Diff(beforeClean, w.Ledger(clean))
			var session *world.Session
			if l != nil {
				session = l.Begin()
			}
			o := m.Do(s)
			if o.Out.Panicked() || outClean.Panicked() {
				return fmt.Errorf("%s: panic: %v %v", at, o.Out.Panic, outClean.Panic)
			}
			if session != nil && containsPaused {
				// no part of a paused action takes effect: neither a fee send nor a swap call
				for _, cl := range session.Calls {
					if cl.Site == "fee-send" || cl.Site == "swap" {
						if (cl.Site == "fee-send" && m.Model.PausedActions[kit.ActFee]) || (cl.Site == "swap" && m.Model.PausedActions[kit.ActSwap]) {
							return fmt.Errorf("%s: action call %s was executed although the action is paused (calls %v)", at, cl.Site, session.Sites())
						}
					}
				}
			}
			anyPause := len(m.Model.PausedActions) > 0
			if anyPause {
				rec.NonTrivial(fmt.Sprintf("%v|%s", m.Model.PausedActions, kit.JSON(t)))
			}
			if outClean.Success {
				rec.Label("probe", "valid probe succeeds with all action pauses removed")
			}
			if l == nil {
				for _, a := range t.Actions {
					if a.Kind == "swap" {
						rec.Label("enforcement", "payload names an action without a controller (paused: "+fmt.Sprint(m.Model.PausedActions[kit.ActSwap])+")")
						if o.Out.Success {
							return fmt.Errorf("%s: the payload names ACTION_SWAP, for which the application has no controller, but the transfer succeeded", at)
						}
					}
				}
			}
			if containsPaused {
				rec.Label("enforcement", "payload contains a paused action")
				rec.Sample("probe with a paused action", map[string]any{"paused": fmt.Sprint(m.Model.PausedActions), "probe": t, "ack": string(o.Out.AckBytes)})
				if o.Out.Success {
					return fmt.Errorf("%s: the payload contains a paused action (%v) but the transfer succeeded", at, m.Model.PausedActions)
				}
				if !o.Out.ErrorAck() {
					return fmt.Errorf("%s: not an error acknowledgement: %q", at, o.Out.AckBytes)
				}
				if len(o.Delta) != 0 {
					return fmt.Errorf("%s: a refused transfer left a ledger delta %s", at, o.Delta)
				}
			} else {
				rec.Label("enforcement", "payload without a paused action")
				if anyPause {
					rec.Sample("probe without the paused action", map[string]any{"paused": fmt.Sprint(m.Model.PausedActions), "probe": t, "ack": string(o.Out.AckBytes)})
				}
				if anyPause {
					rec.Label("enforcement", "payload without a paused action while one is paused")
				}
				if !bytes.Equal(o.Out.AckBytes, outClean.AckBytes) {
					return fmt.Errorf("%s: no action of the payload is paused (%v), yet the acknowledgement differs from the run with all pauses removed:\n  %s\n  %s",
						at, m.Model.PausedActions, o.Out.AckBytes, outClean.AckBytes)
				}
				if !o.Delta.Equal(deltaClean) {
					return fmt.Errorf("%s: no action of the payload is paused, yet the ledger delta differs: %s vs %s", at, o.Delta, deltaClean)
				}
			}
		}
	}
	return nil
}

func TestC09History(t *testing.T) {
	w := prod(t)
	rec := kit.NewRecorder(t, "C09")
	opt := kit.HistOpt{
		MinSteps: 2, MaxSteps: maxSteps(),
		PacketW: 55, AdminW: 45, EnvW: 0,
		Packet: func(rt *rapid.T) kit.Transfer {
			tr := genC08Probe(rt, w)
			// every action identifier that can be paused can also be written into a payload: the
			// application registers a controller for the fee action only, so a payload naming
			// ACTION_SWAP is refused either way - with an error acknowledgement, paused or not
			switch pick(rt, "swap-in-payload", []string{"no", "no", "no", "no", "no", "alone", "before", "after"}) {
			case "alone":
				tr.Actions = []kit.Action{{Kind: "swap"}}
			case "before":
				tr.Actions = append([]kit.Action{{Kind: "swap"}}, tr.Actions...)
			case "after":
				tr.Actions = append(tr.Actions, kit.Action{Kind: "swap"})
			}
			return tr
		},
		Admin: kit.AdminOpt{Kinds: []string{"pause_action", "unpause_action"}, ForeignSignerPct: 8, InvalidPct: 12},
	}
	rapid.Check(t, func(rt *rapid.T) {
		c := caseHistory{History: kit.GenHistory(rt, opt)}
		rec.Eval()
		if err := runC09(w, c, rec); err != nil {
			rec.Fail(rt, c, "%v", err)
		}
	})
	rec.Require("enforcement", "payload contains a paused action", 20)
	rec.Require("enforcement", "payload without a paused action while one is paused", 20)
	rec.Require("probe", "valid probe succeeds with all action pauses removed", 50)
	rec.Require("enforcement", "payload names an action without a controller (paused: true)", 10)
	rec.Require("enforcement", "payload names an action without a controller (paused: false)", 10)
}

// TestC09Lab repeats the check in the LAB world, where ACTION_SWAP has a controller too: pausing
// one action must not affect payloads that contain only the other.
func TestC09Lab(t *testing.T) {
	l := lab(t)
	w := l.W
	rec := kit.NewRecorder(t, "C09")
	opt := kit.HistOpt{
		MinSteps: 2, MaxSteps: maxSteps(),
		PacketW: 55, AdminW: 45, EnvW: 0,
		Packet: func(rt *rapid.T) kit.Transfer { return genC06(rt, l).Transfer },
		Admin:  kit.AdminOpt{Kinds: []string{"pause_action", "unpause_action"}, ForeignSignerPct: 5, InvalidPct: 8},
	}
	rapid.Check(t, func(rt *rapid.T) {
		c := caseHistory{History: kit.GenHistory(rt, opt)}
		rec.Eval()
		if err := runC09On(w, l, c, rec); err != nil {
			rec.Fail(rt, c, "%v", err)
		}
	})
	rec.Require("enforcement", "payload contains a paused action", 20)
	rec.Require("enforcement", "payload without a paused action while one is paused", 20)
}

// ---------------------------------------------------------------------------------------------
// C18

type caseC18 struct {
	// Updates are the parameter messages sent before the probes (valid and foreign-signed).
	History kit.History `json:"history"`
}

const maxProbeLen = 65536

// passthroughProbe: content "count" = bytes 0,1,2,... (the last byte is zero when n%256 == 1),
// "nonzero" = no zero byte at all, "zeros" = only zero bytes, "zero-tail" = data followed by a run
// of zero bytes (what right-padding to a word size produces): the limit bounds the LENGTH.
func passthroughProbe(w *world.World, ch int, n int, content ...string) kit.Transfer {
	pt := make([]byte, n)
	kind := "count"
	if len(content) > 0 {
		kind = content[0]
	}
	for i := range pt {
		switch kind {
		case "nonzero":
			pt[i] = byte(i) | 1
		case "zeros":
		case "zero-tail":
			if i < n/2 {
				pt[i] = byte(i) | 1
			}
		default:
			pt[i] = byte(i)
		}
	}
	return kit.Transfer{Channel: ch, Denom: world.Ufoo, Amount: "1000",
		Route: kit.Route{Kind: "internal", To: world.Addr("alice").String(), Passthrough: pt}}
}

func runC18(w *world.World, c caseC18, rec *kit.Recorder) error {
	m := kit.NewMachine(w)
	updates := 0
	// default genesis: only the empty passthrough is accepted
	probe := func(at string) error {
		limit := int(m.Model.MaxPassthrough)
		var params adaptertypes.QueryParamsResponse
		if err := w.Query(m.Ctx, adapterQuery+"Params", &adaptertypes.QueryParamsRequest{}, &params); err != nil {
			return fmt.Errorf("%s: Params query: %w", at, err)
		}
		if params.Params.MaxPassthroughPayloadSize != m.Model.MaxPassthrough {
			return fmt.Errorf("%s: Params query reports %d, the value most recently set is %d", at, params.Params.MaxPassthroughPayloadSize, m.Model.MaxPassthrough)
		}
		lengths := []int{0}
		if limit <= maxProbeLen {
			lengths = append(lengths, limit, limit+1)
			if limit > 1 {
				lengths = append(lengths, limit-1)
			}
		} else {
			lengths = append(lengths, maxProbeLen)
		}
		lengths = append(lengths, 1, 2*limit+7)
		for li, n := range lengths {
			if n > maxProbeLen+1 {
				continue
			}
			tr := passthroughProbe(w, 1, n, []string{"count", "zeros", "nonzero", "zero-tail"}[(n+li)%4])
			// built WITHOUT the module's validating constructors: the probe is what a sender
			// writes into a memo, and only the receive path may judge it
			p, err := kit.BuildPacket(w.Cdc, tr, false)
			if err != nil {
				return fmt.Errorf("harness: %w", err)
			}
			branch, _ := m.Ctx.CacheContext()
			dust := false
			if n%2 == 1 || n == limit+1 {
				// the limit holds in every state: also with coins of the transferred denom
				// already sitting on the orbiter account
				dm := &kit.Machine{W: w, Ctx: branch, Model: kit.NewState()}
				dust = dm.Do(kit.Step{Env: &kit.Env{Kind: "deposit", User: "carol", Denom: tr.Denom, Amount: "3"}}).Tx.OK()
			}
			out := world.Recv(branch, w.Stack, p)
			if out.Panicked() {
				return fmt.Errorf("%s: probe with passthrough length %d panicked: %v", at, n, out.Panic)
			}
			if dust {
				rec.Label("probe", "with a pre-existing balance on the orbiter account")
				at += " (with a pre-existing orbiter balance)"
			}
			if n <= limit {
				rec.Label("probe", "within the limit")
				if !out.Success {
					return fmt.Errorf("%s: passthrough length %d is within the limit in force (%d) but the transfer was refused: %s", at, n, limit, out.AckBytes)
				}
			} else {
				rec.Label("probe", "above the limit")
				if out.Success {
					return fmt.Errorf("%s: passthrough length %d exceeds the limit in force (%d) but the transfer succeeded", at, n, limit)
				}
				if !out.ErrorAck() {
					return fmt.Errorf("%s: not an error acknowledgement: %q", at, out.AckBytes)
				}
			}
			if updates > 0 && limit > 0 && (n == limit || n == limit+1) {
				rec.Label("probe", "straddling a non-zero limit after an update")
				rec.Sample(fmt.Sprintf("straddle/within=%v", n <= limit), map[string]any{"history": c.History, "limit": limit, "passthrough_len": n, "ack": string(out.AckBytes)})
				rec.NonTrivial(fmt.Sprintf("%d|%d|%d", updates, limit, n))
			}
		}
		return nil
	}
	if err := probe("initial state"); err != nil {
		return err
	}
	for i, s := range c.History {
		at := fmt.Sprintf("step %d (%s)", i, kit.JSON(s))
		o := m.Do(s)
		if s.Admin != nil {
			switch {
			case o.Verdict.DontCare:
				m.Model.SyncPause(m.Impl())
			case o.Verdict.OK && !o.Tx.OK():
				return fmt.Errorf("%s: the message must succeed but failed: %v", at, o.Tx.Err)
			case !o.Verdict.OK && o.Tx.OK():
				return fmt.Errorf("%s: the message must fail (%s) but succeeded", at, o.Verdict.Why)
			case o.Verdict.OK:
				updates++
				rec.Label("admin", "update applied")
			default:
				rec.Label("admin", "update refused (foreign signer)")
			}
		}
		// an update on a branch that is then discarded (a later message of the same transaction
		// failed, a simulation, an out-of-gas) must leave the limit in force untouched
		if s.Admin != nil {
			discarded, _ := m.Ctx.CacheContext()
			other := kit.Admin{Kind: "update_params", MaxPassthrough: m.Model.MaxPassthrough/2 + 13}
			msg, _ := kit.BuildAdmin(other)
			if r := w.Tx(discarded, msg); r.OK() {
				rec.Label("admin", "update on a discarded branch")
				at += fmt.Sprintf(" and a discarded update to %d", other.MaxPassthrough)
			}
		}
		if err := probe("after " + at); err != nil {
			return err
		}
	}
	return nil
}

func TestC18History(t *testing.T) {
	w := prod(t)
	rec := kit.NewRecorder(t, "C18")
	opt := kit.HistOpt{
		MinSteps: 1, MaxSteps: 8,
		PacketW: 15, AdminW: 75, EnvW: 10,
		Packet: func(rt *rapid.T) kit.Transfer { return genC08Probe(rt, w) },
		Admin:  kit.AdminOpt{Kinds: []string{"update_params"}, ForeignSignerPct: 15},
		// the chain moves on, and is upgraded in place (the module's registered migrations run)
		Env: kit.EnvOpt{Kinds: []string{"next_block", "upgrade", "upgrade", "exec_mode"}},
	}
	rapid.Check(t, func(rt *rapid.T) {
		c := caseC18{History: kit.GenHistory(rt, opt)}
		// parameter values beyond the pool: any 32-bit value
		for _, s := range c.History {
			if s.Admin != nil && kit.Chance(rt, "params/any", 40) {
				s.Admin.MaxPassthrough = rapid.Uint32().Draw(rt, "params/value")
				if kit.Chance(rt, "params/smallish", 60) {
					s.Admin.MaxPassthrough %= 3000
				}
			}
		}
		rec.Eval()
		if err := runC18(w, c, rec); err != nil {
			rec.Fail(rt, c, "%v", err)
		}
	})
	rec.Require("probe", "straddling a non-zero limit after an update", 50)
}

func init() {
	kit.RegisterReplay("TestC09History", func(raw json.RawMessage) error {
		c, err := decode[caseHistory](raw)
		if err != nil {
			return fmt.Errorf("harness: %w", err)
		}
		return runC09(prodW, c, nil)
	})
	kit.RegisterReplay("TestC09Lab", func(raw json.RawMessage) error {
		c, err := decode[caseHistory](raw)
		if err != nil {
			return fmt.Errorf("harness: %w", err)
		}
		if labW == nil {
			if labW, labErr = world.NewLab(prodW); labErr != nil {
				return fmt.Errorf("harness: %w", labErr)
			}
		}
		return runC09On(prodW, labW, c, nil)
	})
	kit.RegisterReplay("TestC18History", func(raw json.RawMessage) error {
		c, err := decode[caseC18](raw)
		if err != nil {
			return fmt.Errorf("harness: %w", err)
		}
		return runC18(prodW, c, nil)
	})
}
