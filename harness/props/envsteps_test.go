package props

import (
	"testing"

	"verif/harness/kit"
	"verif/harness/world"
)

// TestEnvStepsWork is a harness self-test: every environment step of the history generators is
// accepted by the external module it addresses, and has the effect the histories rely on (a CCTP
// pause or an unenrolled Hyperlane router turns a valid transfer into a refusal, and back).
func TestEnvStepsWork(t *testing.T) {
	w := prod(t)
	m := kit.NewMachine(w)
	cctp := kit.Transfer{Channel: 0, Denom: world.Uusdc, Amount: "1000", Route: kit.Route{Kind: "cctp", Domain: 0, MintRecipient: kit.Fill32(1)}}
	hyp := kit.Transfer{Channel: 0, Denom: world.Ufoo, Amount: "1000", Route: kit.Route{Kind: "hyp", Domain: 1, TokenID: w.HypToken[world.Ufoo], Recipient: kit.Fill32(3)}}
	probe := func(tr kit.Transfer) bool {
		p, err := kit.BuildPacket(w.Cdc, tr, false)
		if err != nil {
			t.Fatalf("harness: %v", err)
		}
		c, _ := m.Ctx.CacheContext()
		return world.Recv(c, w.Stack, p).Success
	}
	step := func(e kit.Env) {
		if o := m.Do(kit.Step{Env: &e}); !o.Tx.OK() {
			t.Fatalf("harness: environment step %s failed: %v", kit.JSON(e), o.Tx.Err)
		}
	}
	if !probe(cctp) || !probe(hyp) {
		t.Fatalf("harness: the plain probes do not succeed on the root state")
	}
	for _, k := range []string{"cctp_pause_burn", "cctp_pause_msgs"} {
		step(kit.Env{Kind: k})
		if probe(cctp) {
			t.Fatalf("harness: %s does not stop a CCTP transfer", k)
		}
		step(kit.Env{Kind: map[string]string{"cctp_pause_burn": "cctp_unpause_burn", "cctp_pause_msgs": "cctp_unpause_msgs"}[k]})
		if !probe(cctp) {
			t.Fatalf("harness: undoing %s does not let a CCTP transfer through again", k)
		}
	}
	step(kit.Env{Kind: "hyp_unenroll", Denom: world.Ufoo, Amount: "1"})
	if probe(hyp) {
		t.Fatalf("harness: an unenrolled router does not stop a Hyperlane transfer")
	}
	step(kit.Env{Kind: "hyp_enroll", Denom: world.Ufoo, Amount: "1"})
	if !probe(hyp) {
		t.Fatalf("harness: re-enrolling the router does not let a Hyperlane transfer through again")
	}
}
