package props

import (
	"crypto/sha256"
	"encoding/json"
	"fmt"
	"sync"
	"testing"

	"github.com/cosmos/cosmos-sdk/types/bech32"
	"pgregory.net/rapid"

	"verif/harness/kit"
	"verif/harness/world"
)

// C10, the "configured" half of "the configured authority": the application is built (through the
// module's own dependency-injection provider, as every chain does) with the authority configured
// by address or by module name, and the signer matrix is run against the account that
// configuration denotes.

// wiringConfigs: values of `authority:` in the application configuration. Module names are what
// chains write there (gov, upgrade, Noble's own authority module); addresses are what simapp
// writes.
var wiringConfigs = []string{
	"gov", "upgrade", "authority", "orbiter", "orbiter/dust_collector", "bank", "transfer", "hyperlane",
	world.Authority,
	world.Addr("wiring-authority").String(),
}

// expectedAuthority derives, independently of the SDK helpers, the account a configuration value
// denotes: a bech32 address of this chain denotes itself, anything else is a module name and
// denotes the module account sha256(name)[:20].
func expectedAuthority(cfg string) (string, error) {
	if hrp, bz, err := bech32.DecodeAndConvert(cfg); err == nil && hrp == "noble" {
		return bech32.ConvertAndEncode("noble", bz)
	}
	h := sha256.Sum256([]byte(cfg))
	return bech32.ConvertAndEncode("noble", h[:20])
}

func moduleAccount(name string) string {
	h := sha256.Sum256([]byte(name))
	s, _ := bech32.ConvertAndEncode("noble", h[:20])
	return s
}

var (
	wiredMu     sync.Mutex
	wiredWorlds = map[string]*world.World{}
)

func wired(cfg string) (*world.World, error) {
	wiredMu.Lock()
	defer wiredMu.Unlock()
	if w, ok := wiredWorlds[cfg]; ok {
		return w, nil
	}
	w, err := world.New(world.Options{AuthorityConfig: cfg})
	if err != nil {
		return nil, err
	}
	wiredWorlds[cfg] = w
	return w, nil
}

type caseC10Wiring struct {
	Config    string          `json:"authority_config"`
	Input     string          `json:"input"`
	Body      json.RawMessage `json:"body"`
	ValidBody bool            `json:"valid_body"`
	Signer    string          `json:"signer"`
}

func runC10Wiring(c caseC10Wiring, rec *kit.Recorder) error {
	w, err := wired(c.Config)
	if err != nil {
		return fmt.Errorf("harness: building the application with authority %q: %w", c.Config, err)
	}
	want, err := expectedAuthority(c.Config)
	if err != nil {
		return fmt.Errorf("harness: %w", err)
	}
	rpcs, err := enumerateRPCs()
	if err != nil {
		return fmt.Errorf("harness: %w", err)
	}
	var info *rpcInfo
	for i := range rpcs {
		if rpcs[i].Input == c.Input {
			info = &rpcs[i]
		}
	}
	if info == nil {
		return fmt.Errorf("harness: %s is not a registered Msg input", c.Input)
	}
	msg, err := buildC10Msg(w, caseC10{Input: c.Input, Body: c.Body, Signer: c.Signer}, *info)
	if err != nil {
		rec.Label("wiring", "body not decodable")
		return nil
	}
	// the prepared state of c10State, signed by the account the configuration denotes; if that
	// account is not accepted the preparation fails, which is itself the violation
	ctx := w.Branch()
	for _, a := range []kit.Admin{
		{Kind: "pause_protocol", Protocol: "PROTOCOL_HYPERLANE"},
		{Kind: "pause_protocol", Protocol: "PROTOCOL_INTERNAL"},
		{Kind: "pause_cc", Protocol: "PROTOCOL_CCTP", Ids: []string{"5"}},
		{Kind: "pause_cc", Protocol: "PROTOCOL_HYPERLANE", Ids: []string{"7"}},
		{Kind: "pause_action", Action: "ACTION_SWAP"},
		{Kind: "pause_cc", Protocol: "PROTOCOL_CCTP", Ids: c10Batch},
		{Kind: "update_params", MaxPassthrough: 500},
	} {
		a.Signer = want
		m, _ := kit.BuildAdmin(a)
		if res := w.Tx(ctx, m); !res.OK() {
			return fmt.Errorf("authority configured as %q denotes %s, but %s signed by that account is refused: %v", c.Config, want, a.Kind, res.Err)
		}
	}
	before := w.StoreDigest(ctx)
	res := w.Tx(ctx, msg)
	after := w.StoreDigest(ctx)
	kind := "address"
	if want != c.Config {
		kind = "module-name"
	}
	if c.Signer == want {
		rec.Label("wiring", kind+" config / configured authority signs")
		if c.ValidBody {
			rec.NonTrivial(c.Config + "|" + info.Method + "|authority|" + string(c.Body))
			rec.Sample("wiring/"+kind, c)
			if !res.OK() {
				return fmt.Errorf("authority configured as %q: %s signed by %s (the configured authority) with valid content failed: %v", c.Config, info.Method, want, res.Err)
			}
			if after == before {
				return fmt.Errorf("authority configured as %q: %s signed by the authority succeeded without changing state", c.Config, info.Method)
			}
		}
		return nil
	}
	rec.Label("wiring", kind+" config / other signer")
	rec.NonTrivial(c.Config + "|" + info.Method + "|" + c.Signer + "|" + string(c.Body))
	if res.Panic != nil {
		return fmt.Errorf("authority configured as %q: %s with signer %q panicked: %v", c.Config, info.Method, c.Signer, res.Panic)
	}
	if res.OK() {
		return fmt.Errorf("authority configured as %q (= %s): %s succeeded with signer %q, who is not the authority", c.Config, want, info.Method, c.Signer)
	}
	if after != before {
		return fmt.Errorf("authority configured as %q: %s with a foreign signer failed but changed state", c.Config, info.Method)
	}
	return nil
}

func TestC10Wiring(t *testing.T) {
	w := prod(t)
	rec := kit.NewRecorder(t, "C10")
	rpcs, err := enumerateRPCs()
	if err != nil || len(rpcs) == 0 {
		t.Fatalf("harness: no Msg RPC found in the protobuf registry (%v)", err)
	}
	bodies := validBodies(w)
	rapid.Check(t, func(rt *rapid.T) {
		cfg := pick(rt, "config", wiringConfigs)
		want, _ := expectedAuthority(cfg)
		r := pick(rt, "rpc", rpcs)
		c := caseC10Wiring{Config: cfg, Input: r.Input}
		if vb := bodies[r.Input]; len(vb) > 0 && kit.Chance(rt, "valid-body", 75) {
			c.Body, c.ValidBody = json.RawMessage(pick(rt, "body", vb)), true
		} else {
			c.Body = randomBody(rt, w, r.Input)
		}
		switch pick(rt, "signer", []string{"configured", "configured", "default-address", "module-orbiter", "module-gov", "module-upgrade", "raw-config", "other-config", "user", "empty"}) {
		case "configured":
			c.Signer = want
		case "default-address":
			c.Signer = world.Authority
		case "module-orbiter":
			c.Signer = world.OrbiterAddr.String()
		case "module-gov":
			c.Signer = moduleAccount("gov")
		case "module-upgrade":
			c.Signer = moduleAccount("upgrade")
		case "raw-config":
			c.Signer = cfg
		case "other-config":
			c.Signer, _ = expectedAuthority(pick(rt, "other", wiringConfigs))
		case "user":
			c.Signer = kit.PlainUser(rt, "signer/user")
		default:
			c.Signer = ""
		}
		rec.Eval()
		if err := runC10Wiring(c, rec); err != nil {
			rec.Fail(rt, c, "%v", err)
		}
	})
	rec.Require("wiring", "module-name config / configured authority signs", 10)
	rec.Require("wiring", "module-name config / other signer", 10)
	rec.Require("wiring", "address config / configured authority signs", 5)
	rec.Require("wiring", "address config / other signer", 5)
}

func init() {
	kit.RegisterReplay("TestC10Wiring", func(raw json.RawMessage) error {
		c, err := decode[caseC10Wiring](raw)
		if err != nil {
			return fmt.Errorf("harness: %w", err)
		}
		return runC10Wiring(c, nil)
	})
}
