package props

import (
	"bytes"
	"encoding/json"
	"fmt"
	"sort"
	"testing"

	"pgregory.net/rapid"

	sdk "github.com/cosmos/cosmos-sdk/types"
	"github.com/cosmos/cosmos-sdk/types/query"

	forwardertypes "github.com/noble-assets/orbiter/v2/types/component/forwarder"

	"verif/harness/kit"
	"verif/harness/world"
)

// C08 — a paused protocol or destination is never forwarded to; others are unaffected.

const fwdQuery = "/noble.orbiter.component.forwarder.v1.Query/"

var c08Pool = map[string][]string{
	"PROTOCOL_CCTP":      {"0", "1", "2", "3", "5", "9"},
	"PROTOCOL_HYPERLANE": {"1", "2", "7", "3"},
	"PROTOCOL_INTERNAL":  {"noble", "x"},
	"PROTOCOL_IBC":       {"channel-0", "channel-1"},
}

// comparePauseQueries checks that every pause query reports exactly the model's sets.
func comparePauseQueries(w *world.World, ctx sdk.Context, model *kit.State) error {
	var pp forwardertypes.QueryPausedProtocolsResponse
	if err := w.Query(ctx, fwdQuery+"PausedProtocols", &forwardertypes.QueryPausedProtocolsRequest{}, &pp); err != nil {
		return fmt.Errorf("PausedProtocols: %w", err)
	}
	got := map[int32]bool{}
	for _, p := range pp.ProtocolIds {
		if got[int32(p)] {
			return fmt.Errorf("PausedProtocols lists %v twice", p)
		}
		got[int32(p)] = true
	}
	for name, id := range kit.ProtocolNames {
		var r forwardertypes.QueryIsProtocolPausedResponse
		if err := w.Query(ctx, fwdQuery+"IsProtocolPaused", &forwardertypes.QueryIsProtocolPausedRequest{ProtocolId: name}, &r); err != nil {
			return fmt.Errorf("IsProtocolPaused(%s): %w", name, err)
		}
		if r.IsPaused != model.PausedProtocols[id] || got[id] != model.PausedProtocols[id] {
			return fmt.Errorf("protocol %s: model paused=%v, IsProtocolPaused=%v, listed=%v", name, model.PausedProtocols[id], r.IsPaused, got[id])
		}
	}
	if len(got) != len(model.PausedProtocols) {
		return fmt.Errorf("PausedProtocols returns %v, model has %v", pp.ProtocolIds, model.PausedProtocols)
	}
	for name, id := range kit.ProtocolNames {
		// walk all pages, page size 2, following next_key
		want := map[string]bool{}
		for c := range model.PausedCC {
			if c.Protocol == id {
				want[c.Counterparty] = true
			}
		}
		seen := map[string]bool{}
		var key []byte
		for page := 0; ; page++ {
			var r forwardertypes.QueryPausedCrossChainsResponse
			req := &forwardertypes.QueryPausedCrossChainsRequest{ProtocolId: name, Pagination: &query.PageRequest{Key: key, Limit: 7}}
			if err := w.Query(ctx, fwdQuery+"PausedCrossChains", req, &r); err != nil {
				return fmt.Errorf("PausedCrossChains(%s): %w", name, err)
			}
			for _, c := range r.CounterpartyIds {
				if seen[c] {
					return fmt.Errorf("PausedCrossChains(%s) returns %q twice", name, c)
				}
				seen[c] = true
			}
			if r.Pagination == nil || len(r.Pagination.NextKey) == 0 {
				break
			}
			if bytes.Equal(r.Pagination.NextKey, key) || page > 200 {
				return fmt.Errorf("PausedCrossChains(%s): pagination does not advance", name)
			}
			key = r.Pagination.NextKey
		}
		if !sameSet(seen, want) {
			return fmt.Errorf("PausedCrossChains(%s) = %v, model %v", name, keysOf(seen), keysOf(want))
		}
		for _, cp := range c08Pool[name] {
			var r forwardertypes.QueryIsCrossChainPausedResponse
			if err := w.Query(ctx, fwdQuery+"IsCrossChainPaused", &forwardertypes.QueryIsCrossChainPausedRequest{ProtocolId: name, CounterpartyId: cp}, &r); err != nil {
				return fmt.Errorf("IsCrossChainPaused(%s,%s): %w", name, cp, err)
			}
			if r.IsPaused != want[cp] {
				return fmt.Errorf("IsCrossChainPaused(%s,%s)=%v, model %v", name, cp, r.IsPaused, want[cp])
			}
		}
	}
	return nil
}

func sameSet(a, b map[string]bool) bool {
	if len(a) != len(b) {
		return false
	}
	for k := range a {
		if !b[k] {
			return false
		}
	}
	return true
}

func keysOf(m map[string]bool) []string {
	out := make([]string, 0, len(m))
	for k := range m {
		out = append(out, k)
	}
	sort.Strings(out)
	return out
}

// unpauseAll builds S°: a branch of ctx in which every forwarder pause the model knows of has
// been removed through the module's own unpause messages (one identifier per message).
func unpauseAll(w *world.World, ctx sdk.Context, model *kit.State) (sdk.Context, error) {
	c, _ := ctx.CacheContext()
	var protos []int32
	for p := range model.PausedProtocols {
		protos = append(protos, p)
	}
	sort.Slice(protos, func(i, j int) bool { return protos[i] < protos[j] })
	for _, p := range protos {
		msg, _ := kit.BuildAdmin(kit.Admin{Kind: "unpause_protocol", Protocol: kit.ProtocolName(p)})
		if r := w.Tx(c, msg); !r.OK() {
			return c, fmt.Errorf("unpausing protocol %s, which the model and the queries report as paused, failed: %v", kit.ProtocolName(p), r.Err)
		}
	}
	var ccs []kit.CC
	for cc := range model.PausedCC {
		ccs = append(ccs, cc)
	}
	sort.Slice(ccs, func(i, j int) bool { return fmt.Sprint(ccs[i]) < fmt.Sprint(ccs[j]) })
	for _, cc := range ccs {
		msg, _ := kit.BuildAdmin(kit.Admin{Kind: "unpause_cc", Protocol: kit.ProtocolName(cc.Protocol), Ids: []string{cc.Counterparty}})
		if r := w.Tx(c, msg); !r.OK() {
			return c, fmt.Errorf("unpausing (%s,%s), which the model and the queries report as paused, failed: %v", kit.ProtocolName(cc.Protocol), cc.Counterparty, r.Err)
		}
	}
	impl := kit.ReadImpl(w, c)
	if len(impl.PausedProtocols) != 0 || len(impl.PausedCC) != 0 {
		return c, fmt.Errorf("after unpausing every paused entry the exported state still has %v / %v", impl.PausedProtocols, impl.PausedCC)
	}
	return c, nil
}

func genC08Probe(t *rapid.T, w *world.World) kit.Transfer {
	return kit.GenTransfer(t, w, kit.TransferOpt{
		Route:          kit.RouteOpt{EnvValid: true, InternalClasses: []string{"plain"}},
		MaxActions:     1,
		KeepBelowLimit: true,
		Denoms:         []string{world.Uusdc, world.Uusdc, world.Ufoo, world.Gamm},
	})
}

func runC08(w *world.World, c caseHistory, rec *kit.Recorder) error {
	m := kit.NewMachine(w)
	for i, s := range c.History {
		at := fmt.Sprintf("step %d (%s)", i, kit.JSON(s))
		switch {
		case s.Admin != nil:
			o := m.Do(s)
			switch {
			case o.Verdict.DontCare:
				rec.Label("admin", "don't-care ("+o.Verdict.Why+"): model re-synchronised")
				m.Model.SyncPause(m.Impl())
			case o.Verdict.OK && !o.Tx.OK():
				return fmt.Errorf("%s: the message must succeed but failed: %v", at, o.Tx.Err)
			case !o.Verdict.OK && o.Tx.OK():
				return fmt.Errorf("%s: the message must fail (%s) but succeeded", at, o.Verdict.Why)
			case o.Verdict.OK:
				rec.Label("admin", "applied")
			default:
				rec.Label("admin", "refused: "+classOfWhy(o.Verdict.Why))
			}
			if err := m.Model.ComparePause(m.Impl()); err != nil {
				return fmt.Errorf("%s: exported state differs from the model: %w", at, err)
			}
			if err := comparePauseQueries(w, m.Ctx, m.Model); err != nil {
				return fmt.Errorf("%s: queries differ from the model: %w", at, err)
			}
		case s.Packet != nil:
			t := *s.Packet
			paused := m.Model.RoutePaused(t.Route)
			clean, err := unpauseAll(w, m.Ctx, m.Model)
			if err != nil {
				return fmt.Errorf("%s: %w", at, err)
			}
			p, err := kit.BuildPacket(w.Cdc, t, true)
			if err != nil {
				return fmt.Errorf("harness: %w", err)
			}
			// run on S° first (a sibling branch), then on S itself (the history continues there)
			beforeClean := w.Ledger(clean)
			outClean := world.Recv(clean, w.Stack, p)
			deltaClean := world.Diff(beforeClean, w.Ledger(clean))
			o := m.Do(s)
			if o.Out.Panicked() || outClean.Panicked() {
				return fmt.Errorf("%s: panic: %v %v", at, o.Out.Panic, outClean.Panic)
			}
			anyPause := len(m.Model.PausedProtocols)+len(m.Model.PausedCC) > 0
			if anyPause {
				dp, dc := kit.Destination(t.Route)
				rec.NonTrivial(fmt.Sprintf("%v|%v|%d|%s", keysOfProto(m.Model), keysOfCC(m.Model), dp, dc))
			}
			if outClean.Success {
				rec.Label("probe", "valid probe succeeds with all pauses removed")
			} else {
				rec.Label("probe", "probe refused even with all pauses removed")
			}
			if paused {
				rec.Label("enforcement", "destination paused")
				if o.Out.Success {
					return fmt.Errorf("%s: destination is paused (protocols %v, cross-chains %v) but the transfer succeeded", at, keysOfProto(m.Model), keysOfCC(m.Model))
				}
				if !o.Out.ErrorAck() {
					return fmt.Errorf("%s: paused destination: not an error acknowledgement: %q", at, o.Out.AckBytes)
				}
			} else {
				rec.Label("enforcement", "destination not paused")
				if anyPause {
					rec.Label("enforcement", "destination not paused while other pauses exist")
				}
				if !bytes.Equal(o.Out.AckBytes, outClean.AckBytes) {
					return fmt.Errorf("%s: destination is not paused, yet the acknowledgement differs from the run with all pauses removed:\n  with pauses %v/%v: %s\n  without: %s",
						at, keysOfProto(m.Model), keysOfCC(m.Model), o.Out.AckBytes, outClean.AckBytes)
				}
				if !o.Delta.Equal(deltaClean) {
					return fmt.Errorf("%s: destination is not paused, yet the ledger delta differs: %s vs %s", at, o.Delta, deltaClean)
				}
			}
			if o.Out.Success {
				rec.Sample("probe/success", t)
			}
		}
	}
	return nil
}

func keysOfProto(s *kit.State) []string {
	var out []string
	for p := range s.PausedProtocols {
		out = append(out, kit.ProtocolName(p))
	}
	sort.Strings(out)
	return out
}

func keysOfCC(s *kit.State) []string {
	var out []string
	for c := range s.PausedCC {
		out = append(out, fmt.Sprintf("%s:%s", kit.ProtocolName(c.Protocol), c.Counterparty))
	}
	sort.Strings(out)
	return out
}

func classOfWhy(why string) string {
	for _, k := range []string{"signer", "unknown protocol", "batch of", "invalid counterparty", "repeated", "already paused", "not paused", "unknown action"} {
		if bytes.Contains([]byte(why), []byte(k)) {
			return k
		}
	}
	return "other"
}

func TestC08History(t *testing.T) {
	w := prod(t)
	rec := kit.NewRecorder(t, "C08")
	opt := kit.HistOpt{
		MinSteps: 2, MaxSteps: maxSteps() + 10,
		PacketW: 45, AdminW: 55, EnvW: 0,
		Packet: func(rt *rapid.T) kit.Transfer { return genC08Probe(rt, w) },
		Admin: kit.AdminOpt{
			Kinds:            []string{"pause_protocol", "unpause_protocol", "pause_cc", "pause_cc", "unpause_cc"},
			ForeignSignerPct: 8, InvalidPct: 12,
		},
	}
	rapid.Check(t, func(rt *rapid.T) {
		c := caseHistory{History: kit.GenHistory(rt, opt)}
		rec.Eval()
		if err := runC08(w, c, rec); err != nil {
			rec.Fail(rt, c, "%v", err)
		}
	})
	rec.Require("enforcement", "destination paused", 20)
	rec.Require("enforcement", "destination not paused while other pauses exist", 20)
	rec.Require("probe", "valid probe succeeds with all pauses removed", 50)
}

func init() {
	kit.RegisterReplay("TestC08History", func(raw json.RawMessage) error {
		c, err := decode[caseHistory](raw)
		if err != nil {
			return fmt.Errorf("harness: %w", err)
		}
		return runC08(prodW, c, nil)
	})
}
