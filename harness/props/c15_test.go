package props

import (
	"bytes"
	"encoding/json"
	"fmt"
	"reflect"
	"testing"

	"github.com/cosmos/gogoproto/proto"
	"pgregory.net/rapid"

	adapterctrl "github.com/noble-assets/orbiter/v2/controller/adapter"
	orbitertypes "github.com/noble-assets/orbiter/v2/types"
	actiontypes "github.com/noble-assets/orbiter/v2/types/controller/action"
	forwardingtypes "github.com/noble-assets/orbiter/v2/types/controller/forwarding"
	"github.com/noble-assets/orbiter/v2/types/core"

	"verif/harness/kit"
	"verif/harness/world"
)

// C15 — only well-formed payloads are accepted, and encoding round-trips.

func newParser(w *world.World) (*adapterctrl.IBCParser, error) {
	return adapterctrl.NewIBCParser(w.Cdc)
}

// safeParse runs the parser, turning a panic into an error string (C14's subject, not C15's).
func safeParse(p *adapterctrl.IBCParser, memo string) (payload *core.Payload, err error, panicked bool) {
	defer func() {
		if r := recover(); r != nil {
			err, panicked = fmt.Errorf("panic: %v", r), true
		}
	}()
	payload, err = p.ParsePayload([]byte(memo))
	if err != nil {
		payload = nil
	}
	return payload, err, false
}

// payloadEqual compares two payloads by their canonical binary encoding (the cosmos Any type
// carries caches that make a structural comparison meaningless).
func payloadEqual(a, b *core.Payload) bool {
	if a == nil || b == nil {
		return a == b
	}
	ba, err1 := proto.Marshal(a)
	bb, err2 := proto.Marshal(b)
	return err1 == nil && err2 == nil && bytes.Equal(ba, bb)
}

func msgEqual(a, b proto.Message) bool {
	if reflect.TypeOf(a) != reflect.TypeOf(b) {
		return false
	}
	ba, err1 := proto.Marshal(a)
	bb, err2 := proto.Marshal(b)
	return err1 == nil && err2 == nil && bytes.Equal(ba, bb)
}

// resultWellFormed checks the parsed result against the statement.
func resultWellFormed(p *core.Payload) error {
	if p == nil {
		return fmt.Errorf("nil payload accepted")
	}
	if p.Forwarding == nil {
		return fmt.Errorf("accepted payload has no forwarding")
	}
	if id := int32(p.Forwarding.ProtocolId); id < 1 || id > 4 {
		return fmt.Errorf("accepted payload has protocol identifier %d", id)
	}
	if p.Forwarding.Attributes == nil {
		return fmt.Errorf("accepted forwarding has no attributes")
	}
	switch p.Forwarding.Attributes.GetCachedValue().(type) {
	case *forwardingtypes.CCTPAttributes, *forwardingtypes.HypAttributes, *forwardingtypes.InternalAttributes:
	default:
		return fmt.Errorf("accepted forwarding attributes have type %T", p.Forwarding.Attributes.GetCachedValue())
	}
	seen := map[int32]bool{}
	for i, a := range p.PreActions {
		if a == nil {
			return fmt.Errorf("accepted payload has a nil pre-action %d", i)
		}
		id := int32(a.Id)
		if id < 1 || id > 2 {
			return fmt.Errorf("accepted pre-action %d has identifier %d", i, id)
		}
		if seen[id] {
			return fmt.Errorf("accepted payload repeats action identifier %d", id)
		}
		seen[id] = true
		if a.Attributes == nil {
			return fmt.Errorf("accepted pre-action %d has no attributes", i)
		}
		if _, ok := a.Attributes.GetCachedValue().(*actiontypes.FeeAttributes); !ok {
			return fmt.Errorf("accepted pre-action %d attributes have type %T", i, a.Attributes.GetCachedValue())
		}
	}
	return nil
}

type caseC15RT struct {
	Transfer kit.Transfer `json:"transfer"`
}

func runC15RoundTrip(w *world.World, c caseC15RT, rec *kit.Recorder) error {
	pw, err := kit.BuildPayload(c.Transfer)
	if err != nil {
		rec.Label("roundtrip", "constructors refuse")
		return nil
	}
	bz, err := orbitertypes.MarshalJSON(w.Cdc, pw)
	if err != nil {
		return fmt.Errorf("a payload built through the constructors does not serialise: %v", err)
	}
	parser, err := newParser(w)
	if err != nil {
		return fmt.Errorf("harness: %w", err)
	}
	got, perr, panicked := safeParse(parser, string(bz))
	if panicked || perr != nil {
		return fmt.Errorf("a payload built through the constructors does not parse back: %v\nmemo: %s", perr, bz)
	}
	if !payloadEqual(got, pw.Orbiter) {
		return fmt.Errorf("parsed payload differs from the original\nmemo: %s\n got: %v\nwant: %v", bz, got, pw.Orbiter)
	}
	// unpacked attributes
	wantAttr, _ := pw.Orbiter.Forwarding.CachedAttributes()
	gotAttr, err := got.Forwarding.CachedAttributes()
	if err != nil || !msgEqual(gotAttr.(proto.Message), wantAttr.(proto.Message)) {
		return fmt.Errorf("unpacked forwarding attributes differ: %v vs %v (%v)", gotAttr, wantAttr, err)
	}
	for i := range pw.Orbiter.PreActions {
		wa, _ := pw.Orbiter.PreActions[i].CachedAttributes()
		ga, err := got.PreActions[i].CachedAttributes()
		if err != nil || !msgEqual(ga.(proto.Message), wa.(proto.Message)) {
			return fmt.Errorf("unpacked attributes of action %d differ: %v vs %v (%v)", i, ga, wa, err)
		}
	}
	bz2, err := orbitertypes.MarshalJSON(w.Cdc, &core.PayloadWrapper{Orbiter: got})
	if err != nil || !bytes.Equal(bz, bz2) {
		return fmt.Errorf("re-marshalling the parsed payload gives different bytes (%v):\n%s\n%s", err, bz, bz2)
	}
	if v, why := kit.WellFormedMemo(string(bz)); v != kit.WellFormed {
		return fmt.Errorf("harness: the well-formedness predicate rejects a constructed memo (%s): %s", why, bz)
	}
	rec.Label("roundtrip", "ok/"+c.Transfer.Route.Kind)
	rec.NonTrivial(string(bz))
	rec.Sample("roundtrip/"+c.Transfer.Route.Kind, string(bz))
	return nil
}

func TestC15RoundTrip(t *testing.T) {
	w := prod(t)
	rec := kit.NewRecorder(t, "C15")
	rapid.Check(t, func(rt *rapid.T) {
		tr := kit.GenTransfer(rt, w, kit.TransferOpt{
			Route:      kit.RouteOpt{InternalClasses: kit.RecipientClasses[:4]},
			FeeClasses: kit.RecipientClasses, MaxActions: 1,
			Passthrough: func(t *rapid.T) []byte {
				if kit.Chance(t, "pt", 50) {
					return rapid.SliceOfN(rapid.Byte(), 0, 300).Draw(t, "passthrough")
				}
				return nil
			},
		})
		if tr.Route.Kind == "internal" {
			tr.Route.Passthrough = nil // NewInternalForwarding takes none
		}
		c := caseC15RT{Transfer: tr}
		rec.Eval()
		if err := runC15RoundTrip(w, c, rec); err != nil {
			rec.Fail(rt, c, "%v", err)
		}
	})
	for _, k := range kit.AllRouteKinds {
		rec.Require("roundtrip", "ok/"+k, 20)
	}
}

// ---------------------------------------------------------------------------------------------

type caseC15Memo struct {
	Memo string `json:"memo"`
	// Others are memos parsed in between for the purity check.
	Others []string `json:"others,omitempty"`
}

func runC15Acceptance(w *world.World, c caseC15Memo, rec *kit.Recorder) error {
	p1, err := newParser(w)
	if err != nil {
		return fmt.Errorf("harness: %w", err)
	}
	p2, _ := newParser(w)
	got1, err1, panicked := safeParse(p1, c.Memo)
	if panicked {
		rec.Label("acceptance", "parser panic (C14's subject)")
		return nil
	}
	// (4) purity: same memo, after parsing other memos, and on a second parser instance
	for _, o := range c.Others {
		safeParse(p1, o)
	}
	got2, err2, _ := safeParse(p1, c.Memo)
	got3, err3, _ := safeParse(p2, c.Memo)
	// more parses, so that a dependence on map iteration order shows reliably
	for i := 0; i < 24; i++ {
		if (err1 == nil) != (err2 == nil) || (err1 != nil && err1.Error() != err2.Error()) || (err1 == nil && !payloadEqual(got1, got2)) {
			break
		}
		got2, err2, _ = safeParse(p1, c.Memo)
	}
	if (err1 == nil) != (err2 == nil) || (err1 == nil) != (err3 == nil) {
		return fmt.Errorf("parsing is not a pure function of the memo: %v / %v / %v", err1, err2, err3)
	}
	if err1 != nil && (err1.Error() != err2.Error() || err1.Error() != err3.Error()) {
		return fmt.Errorf("error text differs between parses of the same memo:\n%v\n%v\n%v", err1, err2, err3)
	}
	if err1 == nil && (!payloadEqual(got1, got2) || !payloadEqual(got1, got3)) {
		return fmt.Errorf("parsed payload differs between parses of the same memo")
	}
	verdict, why := kit.WellFormedMemo(c.Memo)
	if err1 != nil {
		rec.Label("acceptance", "rejected")
		if verdict == kit.WellFormed {
			rec.Label("acceptance", "rejected although structurally well-formed (a value is invalid)")
		}
		return nil
	}
	rec.Label("acceptance", "accepted")
	rec.NonTrivial(c.Memo)
	rec.Sample("accepted", c.Memo)
	// (2) acceptance => well-formedness, on the input text and on the result
	if verdict == kit.Malformed {
		return fmt.Errorf("accepted a memo that is not a well-formed payload (%s)", why)
	}
	if err := resultWellFormed(got1); err != nil {
		return err
	}
	return nil
}

func genMemoSeed(t *rapid.T, w *world.World) string {
	tr := kit.GenTransfer(t, w, kit.TransferOpt{
		Route: kit.RouteOpt{InternalClasses: []string{"plain"}}, MaxActions: 1,
	})
	memo, err := kit.BuildMemo(w.Cdc, tr, true)
	if err != nil {
		t.Fatalf("harness: %v", err)
	}
	return memo
}

func TestC15Acceptance(t *testing.T) {
	w := prod(t)
	rec := kit.NewRecorder(t, "C15")
	rapid.Check(t, func(rt *rapid.T) {
		memo := genMemoSeed(rt, w)
		c := caseC15Memo{}
		switch pick(rt, "class", []string{"mutated", "mutated", "mutated", "targeted", "targeted", "numeric-enum", "valid", "fuzzed", "hostile-actions", "text", "text"}) {
		case "text":
			var k string
			c.Memo, k = kit.TextMutation(rt, memo)
			rec.Label("mutation", "text:"+k)
		case "hostile-actions":
			tree, _ := kit.ParseJSON(memo)
			kit.HostileActionList(rt, tree)
			rec.Label("mutation", "hostile-action-list")
			c.Memo = tree.String()
		case "mutated":
			tree, _ := kit.ParseJSON(memo)
			n := rapid.IntRange(1, 2).Draw(rt, "n")
			for i := 0; i < n; i++ {
				m := kit.Mutate(rt, tree)
				rec.Label("mutation", m.Kind)
			}
			c.Memo = tree.String()
		case "targeted":
			// (3) the metamorphic mutants the statement names
			tree, _ := kit.ParseJSON(memo)
			m := kit.MutateTargeted(rt, tree)
			rec.Label("mutation", "targeted:"+m.Kind)
			c.Memo = tree.String()
			if v, _ := kit.WellFormedMemo(c.Memo); v == kit.WellFormed {
				rt.Fatalf("harness: targeted mutant %v is still well-formed: %s", m, c.Memo)
			}
		case "numeric-enum":
			c.Memo = numericEnums(memo)
		case "valid":
			c.Memo = memo
		case "fuzzed":
			c.Memo = string(rapid.SliceOfN(rapid.Byte(), 0, 200).Draw(rt, "bytes"))
			if kit.Chance(rt, "prefix", 50) {
				c.Memo = `{"orbiter":` + c.Memo + `}`
			}
		}
		// the memos the same parser has seen in between: valid ones, mutated ones, and memos that
		// belong to other applications sharing the memo field - parsing is a function of the memo,
		// not of the parser's history
		for i, n := 0, rapid.IntRange(0, 3).Draw(rt, "others"); i < n; i++ {
			o := genMemoSeed(rt, w)
			switch pick(rt, fmt.Sprintf("others/%d", i), []string{"valid", "mutated", "foreign", "foreign"}) {
			case "mutated":
				if tree, err := kit.ParseJSON(o); err == nil {
					kit.Mutate(rt, tree)
					o = tree.String()
				}
			case "foreign":
				o = pick(rt, fmt.Sprintf("others/%d/foreign", i), []string{
					`{"forward":{"receiver":"x","port":"transfer","channel":"channel-1"}}`, `{"wasm":{"contract":"c","msg":{}}}`,
					o[:len(o)-1] + `,"forward":{}}`, `{"note":"hello"}`, `{}`, `null`, `[1]`, ``, `{"Orbiter":{}}`, `{"orbiter":null,"x":1}`,
				})
			}
			c.Others = append(c.Others, o)
		}
		rec.Eval()
		if err := runC15Acceptance(w, c, rec); err != nil {
			rec.Fail(rt, c, "%v", err)
		}
	})
	rec.Require("acceptance", "accepted", 100)
	rec.Require("acceptance", "rejected", 100)
}

func init() {
	kit.RegisterReplay("TestC15RoundTrip", func(raw json.RawMessage) error {
		c, err := decode[caseC15RT](raw)
		if err != nil {
			return fmt.Errorf("harness: %w", err)
		}
		return runC15RoundTrip(prodW, c, nil)
	})
	kit.RegisterReplay("TestC15Acceptance", func(raw json.RawMessage) error {
		c, err := decode[caseC15Memo](raw)
		if err != nil {
			return fmt.Errorf("harness: %w", err)
		}
		return runC15Acceptance(prodW, c, nil)
	})
}
