package props

import (
	"bufio"
	"crypto/sha256"
	"encoding/hex"
	"encoding/json"
	"fmt"
	"os"
	"sync"
	"testing"

	"pgregory.net/rapid"

	banktypes "github.com/cosmos/cosmos-sdk/x/bank/types"

	"verif/harness/kit"
	"verif/harness/world"
)

// C19 — processing is deterministic, including committed error text.

var (
	prod2Once sync.Once
	prod2W    *world.World
	prod2Err  error
)

// prod2 is a second, independently constructed application instance in the same process.
func prod2(t testing.TB) *world.World {
	prod2Once.Do(func() { prod2W, prod2Err = world.New(world.Options{}) })
	if prod2Err != nil {
		t.Fatalf("harness: building the second PROD world failed: %v", prod2Err)
	}
	return prod2W
}

// transcript executes a history on one instance and returns one line per step plus the final
// exported orbiter and bank state.
func transcript(w *world.World, h kit.History) ([]string, kit.History) {
	return transcriptQ(w, h, false)
}

// transcriptQ: with queries set, every query RPC of the module is served (read-only, results
// ignored) before the first and after every step.
func transcriptQ(w *world.World, h kit.History, queries bool) ([]string, kit.History) {
	m := kit.NewMachine(w)
	var lines []string
	if queries {
		serveAllQueries(w, m.Ctx)
	}
	for i, s := range h {
		o := m.Do(s)
		if queries {
			serveAllQueries(w, m.Ctx)
		}
		var line string
		switch {
		case o.BuildErr != nil:
			line = "unbuildable"
		case s.Packet != nil && o.Out.Panicked():
			line = "panic"
		case s.Packet != nil:
			line = fmt.Sprintf("ack=%s events=%s", o.Out.AckBytes, world.EventsDigest(o.Out.Events))
		default:
			line = fmt.Sprintf("ok=%v events=%s", o.Tx.OK(), world.EventsDigest(o.Tx.Events))
		}
		line = fmt.Sprintf("%d %s store=%s", i, line, w.StoreDigest(m.Ctx))
		lines = append(lines, line)
	}
	lines = append(lines, "orbiter="+string(w.OrbiterGenesis(m.Ctx)))
	bank := w.App.BankKeeper.ExportGenesis(m.Ctx)
	lines = append(lines, "bank="+string(w.Cdc.MustMarshalJSON(bank)))
	return lines, h
}

var _ = banktypes.ModuleName

func historyStats(w *world.World, h kit.History, lines []string) (errs, oks int) {
	for i, s := range h {
		if s.Packet == nil || i >= len(lines) {
			continue
		}
		if len(lines[i]) > 0 && contains(lines[i], `ack={"error"`) {
			errs++
		} else if contains(lines[i], `ack={"result"`) {
			oks++
		}
	}
	return
}

func contains(s, sub string) bool {
	for i := 0; i+len(sub) <= len(s); i++ {
		if s[i:i+len(sub)] == sub {
			return true
		}
	}
	return false
}

func runC19(w1, w2 *world.World, c caseHistory, rec *kit.Recorder) error {
	l1, _ := transcript(w1, c.History)
	l2, _ := transcript(w2, c.History)
	// and once more on the first instance (map iteration order differs per range, even within
	// one instance)
	l3, _ := transcript(w1, c.History)
	errs, oks := historyStats(w1, c.History, l1)
	if errs >= 1 && oks >= 1 {
		rec.NonTrivial(kit.JSON(c))
		rec.Label("history", "non-trivial (>= 1 error ack and >= 1 success)")
	} else {
		rec.Label("history", "trivial")
	}
	rec.Sample("history", c)
	for i := range l1 {
		if l1[i] != l2[i] {
			return fmt.Errorf("replay on a second instance differs at line %d:\n  first:  %s\n  second: %s", i, trunc(l1[i]), trunc(l2[i]))
		}
		if l1[i] != l3[i] {
			return fmt.Errorf("replay on the same instance differs at line %d:\n  first: %s\n  again: %s", i, trunc(l1[i]), trunc(l3[i]))
		}
	}
	return nil
}

func trunc(s string) string {
	if len(s) > 1500 {
		return s[:1500] + "..."
	}
	return s
}

// genC19Packet is biased towards refused transfers of every kind: the committed error text is
// the risk.
func genC19Packet(t *rapid.T, w *world.World) kit.Transfer {
	tr := genBroadTransfer(t, w)
	switch pick(t, "c19/class", []string{"plain", "plain", "mutated", "mutated", "mutated", "two-unknown", "hostile", "hostile", "receiver", "hostile-actions", "hostile-actions", "oneof", "oneof"}) {
	case "oneof":
		// an otherwise valid, executable transfer whose fee info also carries the other member
		// of its fee-type oneof (null, empty or a value): whichever way the chain reads it, every
		// replay must read it the same way
		vt := genC08Probe(t, w)
		vt.Actions = []kit.Action{{Kind: "fee", Fees: []kit.Fee{{Recipient: kit.PlainUser(t, "oneof/rcpt"), Bps: 100}, {Recipient: kit.PlainUser(t, "oneof/rcpt2"), Fixed: "3"}}}}
		if memo, err := kit.BuildMemo(w.Cdc, vt, false); err == nil {
			if tree, err := kit.ParseJSON(memo); err == nil && kit.OneofSibling(t, tree) {
				m := tree.String()
				vt.RawMemo = &m
				tr = vt
			}
		}
	case "hostile-actions":
		// several pre-actions that are invalid for different reasons at once
		if memo, err := kit.BuildMemo(w.Cdc, tr, false); err == nil {
			if tree, err := kit.ParseJSON(memo); err == nil {
				kit.HostileActionList(t, tree)
				m := tree.String()
				tr.RawMemo = &m
			}
		}
	case "mutated":
		if memo, err := kit.BuildMemo(w.Cdc, tr, false); err == nil {
			if tree, err := kit.ParseJSON(memo); err == nil {
				for i, n := 0, rapid.IntRange(1, 3).Draw(t, "c19/n"); i < n; i++ {
					kit.Mutate(t, tree)
				}
				m := tree.String()
				tr.RawMemo = &m
			}
		}
	case "two-unknown":
		if memo, err := kit.BuildMemo(w.Cdc, tr, false); err == nil {
			if tree, err := kit.ParseJSON(memo); err == nil {
				kit.MutateTargeted(t, tree)
				kit.MutateTargeted(t, tree)
				kit.MutateTargeted(t, tree)
				m := tree.String()
				tr.RawMemo = &m
			}
		}
	case "hostile":
		tr.Route = genHostileRoute(t, w, tr.Denom)
		if kit.Chance(t, "c19/hostile-fee", 50) {
			tr.Actions = []kit.Action{{Kind: "fee", Fees: genHostileFees(t)}}
		}
	case "receiver":
		tr.Receiver = receiverVariant(t, pick(t, "rcv/class", receiverVariants[1:]))
	}
	return tr
}

// richPrefix puts the module into a state in which every collection holds several entries - both
// actions paused, several protocols and counterparties paused, a non-default parameter - so that
// anything that depends on the ORDER in which a collection is read back (exported state, query
// answers, error texts listing entries) has something to reorder.
func richPrefix(t *rapid.T) kit.History {
	var h kit.History
	add := func(a kit.Admin) { h = append(h, kit.Step{Admin: &a}) }
	add(kit.Admin{Kind: "pause_action", Action: "ACTION_SWAP"})
	add(kit.Admin{Kind: "pause_action", Action: "ACTION_FEE"})
	for _, p := range []string{"PROTOCOL_HYPERLANE", "PROTOCOL_IBC", "PROTOCOL_CCTP", "PROTOCOL_INTERNAL"} {
		if kit.Chance(t, "rich/"+p, 60) {
			add(kit.Admin{Kind: "pause_protocol", Protocol: p})
		}
	}
	add(kit.Admin{Kind: "pause_cc", Protocol: "PROTOCOL_CCTP", Ids: []string{"5", "0", "3"}})
	add(kit.Admin{Kind: "pause_cc", Protocol: "PROTOCOL_HYPERLANE", Ids: []string{"7", "1"}})
	add(kit.Admin{Kind: "update_params", MaxPassthrough: 64})
	if kit.Chance(t, "rich/unpause-fee", 50) {
		add(kit.Admin{Kind: "unpause_action", Action: "ACTION_FEE"})
		add(kit.Admin{Kind: "pause_action", Action: "ACTION_FEE"})
	}
	return h
}

// genC19History draws a history, a third of the time on top of the rich prefix.
func genC19History(t *rapid.T, opt kit.HistOpt) kit.History {
	h := kit.GenHistory(t, opt)
	if kit.Chance(t, "rich-prefix", 35) {
		h = append(richPrefix(t), h...)
	}
	return h
}

func c19Opt(w *world.World) kit.HistOpt {
	return kit.HistOpt{
		MinSteps: 2, MaxSteps: maxSteps(),
		PacketW: 75, AdminW: 15, EnvW: 10,
		Packet: func(t *rapid.T) kit.Transfer { return genC19Packet(t, w) },
		Admin:  kit.AdminOpt{ForeignSignerPct: 15, InvalidPct: 20},
	}
}

func TestC19InProcess(t *testing.T) {
	w1, w2 := prod(t), prod2(t)
	rec := kit.NewRecorder(t, "C19")
	opt := c19Opt(w1)
	rapid.Check(t, func(rt *rapid.T) {
		c := caseHistory{History: genC19History(rt, opt)}
		rec.Eval()
		if err := runC19(w1, w2, c, rec); err != nil {
			rec.Fail(rt, c, "%v", err)
		}
	})
	rec.Require("history", "non-trivial (>= 1 error ack and >= 1 success)", 20)
}

// TestC19FreshInstance: the answer to a history is a function of the committed store and the
// input only. Each case is a pair (warm-up, history). The history is replayed on (a) a BRAND-NEW
// application instance, (b) a second brand-new instance that first executed the warm-up on a
// branch that was then DISCARDED (as a failed transaction, a CheckTx or a simulation is), and
// (c) the long-lived instance that has processed every earlier case of this process. Anything the
// module keeps outside the store - caches, memoised validations, counters in controller objects -
// makes (b) or (c) answer differently from (a).
type caseC19Fresh struct {
	Warmup  kit.History `json:"warmup"`
	History kit.History `json:"history"`
}

func TestC19FreshInstance(t *testing.T) {
	w1 := prod(t)
	rec := kit.NewRecorder(t, "C19")
	opt := c19Opt(w1)
	opt.MaxSteps = 10
	rapid.Check(t, func(rt *rapid.T) {
		c := caseC19Fresh{Warmup: kit.GenHistory(rt, opt), History: kit.GenHistory(rt, opt)}
		if kit.Chance(rt, "siblings", 60) {
			c = genC19Siblings(rt, w1)
		}
		rec.Eval()
		if err := runC19Fresh(w1, c, rec); err != nil {
			rec.Fail(rt, c, "%v", err)
		}
	})
}

// genC19Siblings aims at memoised decisions: the warm-up makes valid transfers, the history then
// sends SIBLINGS of them - the same transfer with one thing changed so that it must now be judged
// differently (another denomination through the same Hyperlane token, the same route after a
// pause, a larger amount, another recipient) - with coins of every Hyperlane denomination sitting
// on the orbiter account, so that a wrongly accepted sibling can even be paid for.
func genC19Siblings(t *rapid.T, w *world.World) caseC19Fresh {
	var c caseC19Fresh
	n := 1 + rapid.IntRange(0, 2).Draw(t, "sib/n")
	var valid []kit.Transfer
	for i := 0; i < n; i++ {
		tr := genC08Probe(t, w)
		if kit.Chance(t, fmt.Sprintf("sib/%d/hyp", i), 50) {
			if _, has := w.HypToken[tr.Denom]; has {
				tr.Route = kit.GenRoute(t, w, tr.Denom, kit.RouteOpt{EnvValid: true, Kinds: []string{"hyp"}})
			}
		}
		valid = append(valid, tr)
		c.Warmup = append(c.Warmup, kit.Step{Packet: &tr})
	}
	for _, d := range []string{world.Uusdc, world.Ufoo} {
		if kit.Chance(t, "sib/deposit/"+d, 80) {
			c.History = append(c.History, kit.Step{Env: &kit.Env{Kind: "deposit", User: pick(t, "sib/deposit/user/"+d, kit.PlainUsers), Denom: d, Amount: "999999999"}})
		}
	}
	for i, v := range valid {
		l := fmt.Sprintf("sib/%d", i)
		sib := v
		sib.Actions = append([]kit.Action{}, v.Actions...)
		switch pick(t, l+"/change", []string{"denom", "denom", "same", "amount", "recipient", "paused", "other-token"}) {
		case "denom":
			// everything as before, another denomination (small amount, no fees)
			var others []string
			for _, d := range []string{world.Uusdc, world.Ufoo, world.Gamm} {
				if d != v.Denom {
					others = append(others, d)
				}
			}
			sib.Denom = pick(t, l+"/denom", others)
			sib.Amount = fmt.Sprint(1 + rapid.IntRange(0, 999).Draw(t, l+"/amount"))
			sib.Actions = nil
		case "same":
		case "amount":
			sib.Amount = pick(t, l+"/amountv", []string{"1", "1000000001", "999999999999"})
			sib.Actions = nil
		case "recipient":
			if sib.Route.Kind == "internal" {
				sib.Route.To = pick(t, l+"/to", []string{world.OrbiterAddr.String(), world.DustAddr.String(), kit.PlainUser(t, l+"/user")})
			} else {
				sib.Route.Recipient, sib.Route.MintRecipient = kit.Bytes32(t, l+"/r"), kit.Bytes32(t, l+"/m")
			}
		case "paused":
			proto := map[string]string{"cctp": "PROTOCOL_CCTP", "hyp": "PROTOCOL_HYPERLANE", "internal": "PROTOCOL_INTERNAL"}[sib.Route.Kind]
			c.History = append(c.History, kit.Step{Admin: &kit.Admin{Kind: "pause_protocol", Protocol: proto}})
		case "other-token":
			if sib.Route.Kind == "hyp" {
				sib.Route, _ = kit.CrossedTokenRoute(t, w, l+"/crossed", sib.Denom)
			}
		}
		c.History = append(c.History, kit.Step{Packet: &sib})
	}
	return c
}

func runC19Fresh(long *world.World, c caseC19Fresh, rec *kit.Recorder) error {
	fresh, err := world.New(world.Options{})
	if err != nil {
		return fmt.Errorf("harness: building a fresh instance failed: %w", err)
	}
	warm, err := world.New(world.Options{})
	if err != nil {
		return fmt.Errorf("harness: building a fresh instance failed: %w", err)
	}
	transcript(warm, c.Warmup) // runs on a branch of the root state that is dropped
	lf, _ := transcript(fresh, c.History)
	lw, _ := transcript(warm, c.History)
	ll, _ := transcript(long, c.History)
	errs, oks := historyStats(fresh, c.History, lf)
	if errs >= 1 && oks >= 1 {
		rec.NonTrivial(kit.JSON(c))
		rec.Label("fresh", "non-trivial (>= 1 error ack and >= 1 success)")
		rec.Sample("warmup+history", c)
	} else {
		rec.Label("fresh", "trivial")
	}
	for i := range lf {
		if lf[i] != lw[i] {
			return fmt.Errorf("an instance that executed and DISCARDED a warm-up history answers differently from a fresh one at line %d (state kept outside the store):\n  fresh:  %s\n  warmed: %s", i, trunc(lf[i]), trunc(lw[i]))
		}
		if lf[i] != ll[i] {
			return fmt.Errorf("the long-lived instance of this process answers differently from a fresh one at line %d (state kept outside the store; reproduces only after the earlier cases of the run):\n  fresh:      %s\n  long-lived: %s", i, trunc(lf[i]), trunc(ll[i]))
		}
	}
	return nil
}

// TestC19CrossProcess writes one digest line per generated history to VERIF_TRANSCRIPT; the
// driver runs it in two separate processes with the same seed and compares the files.
func TestC19CrossProcess(t *testing.T) {
	path := os.Getenv("VERIF_TRANSCRIPT")
	if path == "" {
		t.Skip("VERIF_TRANSCRIPT not set")
	}
	w := prod(t)
	rec := kit.NewRecorder(t, "C19")
	f, err := os.Create(path)
	if err != nil {
		t.Fatal(err)
	}
	defer f.Close()
	out := bufio.NewWriter(f)
	defer out.Flush()
	opt := c19Opt(w)
	rapid.Check(t, func(rt *rapid.T) {
		c := caseHistory{History: genC19History(rt, opt)}
		rec.Eval()
		// the second process serves every query of the module between the steps: read-only
		// requests must not change what the transactions produce
		lines, _ := transcriptQ(w, c.History, os.Getenv("VERIF_REPLICA") == "1")
		h := sha256.New()
		for _, l := range lines {
			h.Write([]byte(l))
			h.Write([]byte{'\n'})
		}
		errs, oks := historyStats(w, c.History, lines)
		if errs >= 1 && oks >= 1 {
			rec.NonTrivial(kit.JSON(c))
		}
		fmt.Fprintf(out, "%s %s\n", hex.EncodeToString(h.Sum(nil)), kit.JSON(c))
	})
	rec.Note("cross-process: this process's transcript digests are compared with a second process's by the driver")
}

func init() {
	kit.RegisterReplay("TestC19FreshInstance", func(raw json.RawMessage) error {
		c, err := decode[caseC19Fresh](raw)
		if err != nil {
			return fmt.Errorf("harness: %w", err)
		}
		return runC19Fresh(prodW, c, nil)
	})
	kit.RegisterReplay("TestC19InProcess", func(raw json.RawMessage) error {
		c, err := decode[caseHistory](raw)
		if err != nil {
			return fmt.Errorf("harness: %w", err)
		}
		if prod2W == nil {
			if prod2W, prod2Err = world.New(world.Options{}); prod2Err != nil {
				return fmt.Errorf("harness: %w", prod2Err)
			}
		}
		return runC19(prodW, prod2W, c, nil)
	})
}
