package props

import (
	"bufio"
	"crypto/sha256"
	"encoding/hex"
	"encoding/json"
	"fmt"
	"os"
	"sync"
	"testing"

	"pgregory.net/rapid"

	banktypes "github.com/cosmos/cosmos-sdk/x/bank/types"

	"verif/harness/kit"
	"verif/harness/world"
)

// C19 — processing is deterministic, including committed error text.

var (
	prod2Once sync.Once
	prod2W    *world.World
	prod2Err  error
)

// prod2 is a second, independently constructed application instance in the same process.
func prod2(t testing.TB) *world.World {
	prod2Once.Do(func() { prod2W, prod2Err = world.New(world.Options{}) })
	if prod2Err != nil {
		t.Fatalf("harness: building the second PROD world failed: %v", prod2Err)
	}
	return prod2W
}

// transcript executes a history on one instance and returns one line per step plus the final
// exported orbiter and bank state.
func transcript(w *world.World, h kit.History) ([]string, kit.History) {
	m := kit.NewMachine(w)
	var lines []string
	for i, s := range h {
		o := m.Do(s)
		var line string
		switch {
		case o.BuildErr != nil:
			line = "unbuildable"
		case s.Packet != nil && o.Out.Panicked():
			line = "panic"
		case s.Packet != nil:
			line = fmt.Sprintf("ack=%s events=%s", o.Out.AckBytes, world.EventsDigest(o.Out.Events))
		default:
			line = fmt.Sprintf("ok=%v events=%s", o.Tx.OK(), world.EventsDigest(o.Tx.Events))
		}
		line = fmt.Sprintf("%d %s store=%s", i, line, w.StoreDigest(m.Ctx))
		lines = append(lines, line)
	}
	lines = append(lines, "orbiter="+string(w.OrbiterGenesis(m.Ctx)))
	bank := w.App.BankKeeper.ExportGenesis(m.Ctx)
	lines = append(lines, "bank="+string(w.Cdc.MustMarshalJSON(bank)))
	return lines, h
}

var _ = banktypes.ModuleName

func historyStats(w *world.World, h kit.History, lines []string) (errs, oks int) {
	for i, s := range h {
		if s.Packet == nil || i >= len(lines) {
			continue
		}
		if len(lines[i]) > 0 && contains(lines[i], `ack={"error"`) {
			errs++
		} else if contains(lines[i], `ack={"result"`) {
			oks++
		}
	}
	return
}

func contains(s, sub string) bool {
	for i := 0; i+len(sub) <= len(s); i++ {
		if s[i:i+len(sub)] == sub {
			return true
		}
	}
	return false
}

func runC19(w1, w2 *world.World, c caseHistory, rec *kit.Recorder) error {
	l1, _ := transcript(w1, c.History)
	l2, _ := transcript(w2, c.History)
	// and once more on the first instance (map iteration order differs per range, even within
	// one instance)
	l3, _ := transcript(w1, c.History)
	errs, oks := historyStats(w1, c.History, l1)
	if errs >= 1 && oks >= 1 {
		rec.NonTrivial(kit.JSON(c))
		rec.Label("history", "non-trivial (>= 1 error ack and >= 1 success)")
	} else {
		rec.Label("history", "trivial")
	}
	rec.Sample("history", c)
	for i := range l1 {
		if l1[i] != l2[i] {
			return fmt.Errorf("replay on a second instance differs at line %d:\n  first:  %s\n  second: %s", i, trunc(l1[i]), trunc(l2[i]))
		}
		if l1[i] != l3[i] {
			return fmt.Errorf("replay on the same instance differs at line %d:\n  first: %s\n  again: %s", i, trunc(l1[i]), trunc(l3[i]))
		}
	}
	return nil
}

func trunc(s string) string {
	if len(s) > 1500 {
		return s[:1500] + "..."
	}
	return s
}

// genC19Packet is biased towards refused transfers of every kind: the committed error text is
// the risk.
func genC19Packet(t *rapid.T, w *world.World) kit.Transfer {
	tr := genBroadTransfer(t, w)
	switch pick(t, "c19/class", []string{"plain", "plain", "mutated", "mutated", "mutated", "two-unknown", "hostile", "hostile", "receiver", "hostile-actions", "hostile-actions", "oneof", "oneof"}) {
	case "oneof":
		// an otherwise valid, executable transfer whose fee info also carries the other member
		// of its fee-type oneof (null, empty or a value): whichever way the chain reads it, every
		// replay must read it the same way
		vt := genC08Probe(t, w)
		vt.Actions = []kit.Action{{Kind: "fee", Fees: []kit.Fee{{Recipient: kit.PlainUser(t, "oneof/rcpt"), Bps: 100}, {Recipient: kit.PlainUser(t, "oneof/rcpt2"), Fixed: "3"}}}}
		if memo, err := kit.BuildMemo(w.Cdc, vt, false); err == nil {
			if tree, err := kit.ParseJSON(memo); err == nil && kit.OneofSibling(t, tree) {
				m := tree.String()
				vt.RawMemo = &m
				tr = vt
			}
		}
	case "hostile-actions":
		// several pre-actions that are invalid for different reasons at once
		if memo, err := kit.BuildMemo(w.Cdc, tr, false); err == nil {
			if tree, err := kit.ParseJSON(memo); err == nil {
				kit.HostileActionList(t, tree)
				m := tree.String()
				tr.RawMemo = &m
			}
		}
	case "mutated":
		if memo, err := kit.BuildMemo(w.Cdc, tr, false); err == nil {
			if tree, err := kit.ParseJSON(memo); err == nil {
				for i, n := 0, rapid.IntRange(1, 3).Draw(t, "c19/n"); i < n; i++ {
					kit.Mutate(t, tree)
				}
				m := tree.String()
				tr.RawMemo = &m
			}
		}
	case "two-unknown":
		if memo, err := kit.BuildMemo(w.Cdc, tr, false); err == nil {
			if tree, err := kit.ParseJSON(memo); err == nil {
				kit.MutateTargeted(t, tree)
				kit.MutateTargeted(t, tree)
				kit.MutateTargeted(t, tree)
				m := tree.String()
				tr.RawMemo = &m
			}
		}
	case "hostile":
		tr.Route = genHostileRoute(t, w, tr.Denom)
		if kit.Chance(t, "c19/hostile-fee", 50) {
			tr.Actions = []kit.Action{{Kind: "fee", Fees: genHostileFees(t)}}
		}
	case "receiver":
		tr.Receiver = receiverVariant(t, pick(t, "rcv/class", receiverVariants[1:]))
	}
	return tr
}

func c19Opt(w *world.World) kit.HistOpt {
	return kit.HistOpt{
		MinSteps: 2, MaxSteps: maxSteps(),
		PacketW: 75, AdminW: 15, EnvW: 10,
		Packet: func(t *rapid.T) kit.Transfer { return genC19Packet(t, w) },
		Admin:  kit.AdminOpt{ForeignSignerPct: 15, InvalidPct: 20},
	}
}

func TestC19InProcess(t *testing.T) {
	w1, w2 := prod(t), prod2(t)
	rec := kit.NewRecorder(t, "C19")
	opt := c19Opt(w1)
	rapid.Check(t, func(rt *rapid.T) {
		c := caseHistory{History: kit.GenHistory(rt, opt)}
		rec.Eval()
		if err := runC19(w1, w2, c, rec); err != nil {
			rec.Fail(rt, c, "%v", err)
		}
	})
	rec.Require("history", "non-trivial (>= 1 error ack and >= 1 success)", 20)
}

// TestC19CrossProcess writes one digest line per generated history to VERIF_TRANSCRIPT; the
// driver runs it in two separate processes with the same seed and compares the files.
func TestC19CrossProcess(t *testing.T) {
	path := os.Getenv("VERIF_TRANSCRIPT")
	if path == "" {
		t.Skip("VERIF_TRANSCRIPT not set")
	}
	w := prod(t)
	rec := kit.NewRecorder(t, "C19")
	f, err := os.Create(path)
	if err != nil {
		t.Fatal(err)
	}
	defer f.Close()
	out := bufio.NewWriter(f)
	defer out.Flush()
	opt := c19Opt(w)
	rapid.Check(t, func(rt *rapid.T) {
		c := caseHistory{History: kit.GenHistory(rt, opt)}
		rec.Eval()
		lines, _ := transcript(w, c.History)
		h := sha256.New()
		for _, l := range lines {
			h.Write([]byte(l))
			h.Write([]byte{'\n'})
		}
		errs, oks := historyStats(w, c.History, lines)
		if errs >= 1 && oks >= 1 {
			rec.NonTrivial(kit.JSON(c))
		}
		fmt.Fprintf(out, "%s %s\n", hex.EncodeToString(h.Sum(nil)), kit.JSON(c))
	})
	rec.Note("cross-process: this process's transcript digests are compared with a second process's by the driver")
}

func init() {
	kit.RegisterReplay("TestC19InProcess", func(raw json.RawMessage) error {
		c, err := decode[caseHistory](raw)
		if err != nil {
			return fmt.Errorf("harness: %w", err)
		}
		if prod2W == nil {
			if prod2W, prod2Err = world.New(world.Options{}); prod2Err != nil {
				return fmt.Errorf("harness: %w", prod2Err)
			}
		}
		return runC19(prodW, prod2W, c, nil)
	})
}
