package props

import (
	"bytes"
	"encoding/json"
	"fmt"
	"testing"

	"pgregory.net/rapid"

	sdk "github.com/cosmos/cosmos-sdk/types"

	"verif/harness/kit"
	"verif/harness/world"
)

// Cross-validation of the harness's emulation of baseapp's per-transaction atomicity (DESIGN.md
// §2.4): an admin history is delivered (a) through world.Tx on a branch and (b) as signed
// transactions through FinalizeBlock + Commit on a fresh application; the exported orbiter state
// and the per-message success bits must agree. Serves C08 (batch atomicity), C09, C10, C18.

type caseTxEmu struct {
	Admins []kit.Admin `json:"admins"`
}

func runTxEmu(w *world.World, c caseTxEmu, rec *kit.Recorder) error {
	// (a) emulation
	ctx := w.Branch()
	var okA []bool
	for _, a := range c.Admins {
		msg, err := kit.BuildAdmin(a)
		if err != nil {
			return fmt.Errorf("harness: %w", err)
		}
		okA = append(okA, w.Tx(ctx, msg).OK())
	}
	stateA := w.OrbiterGenesis(ctx)
	// (b) real transactions, one per message, a few per block
	w2, err := world.New(world.Options{})
	if err != nil {
		return fmt.Errorf("harness: %w", err)
	}
	var okB []bool
	for i := 0; i < len(c.Admins); i += 3 {
		var txs [][]sdk.Msg
		for _, a := range c.Admins[i:min(i+3, len(c.Admins))] {
			msg, _ := kit.BuildAdmin(a)
			txs = append(txs, []sdk.Msg{msg})
		}
		res, err := w2.DeliverBlock(txs)
		if err != nil {
			return fmt.Errorf("harness: delivering the block failed: %w", err)
		}
		for _, r := range res {
			okB = append(okB, r.Code == 0)
		}
	}
	stateB := w2.OrbiterGenesis(w2.Branch())
	for i := range okA {
		if okA[i] != okB[i] {
			return fmt.Errorf("message %d (%s): emulation ok=%v, real transaction ok=%v", i, kit.JSON(c.Admins[i]), okA[i], okB[i])
		}
	}
	if !bytes.Equal(stateA, stateB) {
		return fmt.Errorf("exported state differs:\n  emulation: %s\n  real txs:  %s", stateA, stateB)
	}
	applied := 0
	for _, ok := range okA {
		if ok {
			applied++
		}
	}
	if applied >= 1 && applied < len(okA) {
		rec.NonTrivial(kit.JSON(c))
		rec.Label("txemu", "history with applied and refused messages")
	}
	rec.Sample("admin-history", map[string]any{"admins": c.Admins, "ok": okA})
	return nil
}

func genTxEmu(t *rapid.T, kinds []string) caseTxEmu {
	n := rapid.IntRange(2, 9).Draw(t, "n")
	var c caseTxEmu
	for i := 0; i < n; i++ {
		a := kit.GenAdmin(t, kit.AdminOpt{Kinds: kinds, InvalidPct: 15})
		a.Signer = "" // real transactions can only be signed with the authority key
		c.Admins = append(c.Admins, a)
	}
	return c
}

func txEmuTest(t *testing.T, prop string, kinds []string) {
	w := prod(t)
	rec := kit.NewRecorder(t, prop)
	rapid.Check(t, func(rt *rapid.T) {
		c := genTxEmu(rt, kinds)
		rec.Eval()
		if err := runTxEmu(w, c, rec); err != nil {
			rec.Fail(rt, c, "%v", err)
		}
	})
	rec.Require("txemu", "history with applied and refused messages", 5)
}

func TestC08RealTransactions(t *testing.T) {
	txEmuTest(t, "C08", []string{"pause_protocol", "unpause_protocol", "pause_cc", "pause_cc", "unpause_cc"})
}

func TestC09RealTransactions(t *testing.T) {
	txEmuTest(t, "C09", []string{"pause_action", "unpause_action"})
}

func TestC18RealTransactions(t *testing.T) {
	txEmuTest(t, "C18", []string{"update_params", "update_params", "pause_action"})
}

func init() {
	for _, name := range []string{"TestC08RealTransactions", "TestC09RealTransactions", "TestC18RealTransactions"} {
		kit.RegisterReplay(name, func(raw json.RawMessage) error {
			c, err := decode[caseTxEmu](raw)
			if err != nil {
				return fmt.Errorf("harness: %w", err)
			}
			return runTxEmu(prodW, c, nil)
		})
	}
}
