package props

import (
	"testing"

	"verif/harness/kit"
	"verif/harness/world"
)

func TestLabSmoke(t *testing.T) {
	l := lab(t)
	w := l.W
	tr := kit.Transfer{Channel: 0, Denom: world.Ufoo, Amount: "1000",
		Actions: []kit.Action{{Kind: "swap"}, {Kind: "fee", Fees: []kit.Fee{{Recipient: world.Addr("alice").String(), Bps: 100}}}},
		Route:   kit.Route{Kind: "hyp", Domain: 1, TokenID: w.HypToken[world.SwapDenom], Recipient: kit.Fill32(1)}}
	p, err := kit.BuildPacket(w.Cdc, tr, false)
	if err != nil {
		t.Fatal(err)
	}
	ctx := w.Branch()
	s := l.Begin()
	before := w.Ledger(ctx)
	out := world.Recv(ctx, l.Stack, p)
	t.Logf("outcome %s", out.String())
	t.Logf("sites %v", s.Sites())
	t.Logf("delta %s", world.Diff(before, w.Ledger(ctx)))
	t.Logf("stats %s", w.OrbiterGenesis(ctx))
	if !out.Success {
		t.Fatal("expected success")
	}
}
