package props

import (
	"encoding/json"
	"fmt"
	"testing"

	"pgregory.net/rapid"

	"verif/harness/kit"
	"verif/harness/world"
)

// C14 — no input makes the receive path panic; malformed payloads are refused.

// caseC14 is one packet through the whole PROD stack on a branch of the root state.
type caseC14 struct {
	Transfer  kit.Transfer   `json:"transfer"`
	Mutations []kit.Mutation `json:"mutations,omitempty"`
}

// checkC14 is exec -> oracle for one packet: OnRecvPacket must return an acknowledgement, and an
// orbiter-addressed packet whose memo is not a well-formed payload must get an error
// acknowledgement.
func checkC14(w *world.World, c caseC14, rec *kit.Recorder) error {
	p, err := kit.BuildPacket(w.Cdc, c.Transfer, false)
	if err != nil {
		return fmt.Errorf("harness: cannot build packet: %w", err)
	}
	ctx := w.Branch()
	out := world.Recv(ctx, w.Stack, p)
	if out.Panicked() {
		return fmt.Errorf("OnRecvPacket panicked: %v\n%s", out.Panic, firstLines(out.PanicStack, 40))
	}
	if out.Ack == nil {
		return fmt.Errorf("OnRecvPacket returned a nil acknowledgement")
	}
	if !out.Success && !out.ErrorAck() {
		return fmt.Errorf("unsuccessful acknowledgement is not a well-formed error acknowledgement: %q", out.AckBytes)
	}
	stage := "error-ack"
	if out.Success {
		stage = "success"
	}
	rec.Label("outcome", stage)
	if c.Transfer.RawData == nil && c.Transfer.RawMemo != nil && orbiterAddressed(c.Transfer.ReceiverString()) {
		verdict, why := kit.WellFormedMemo(*c.Transfer.RawMemo)
		switch verdict {
		case kit.Malformed:
			rec.Label("memo", "malformed")
			if out.Success {
				return fmt.Errorf("malformed payload (%s) addressed to the orbiter account got a success acknowledgement", why)
			}
		case kit.WellFormed:
			rec.Label("memo", "well-formed")
		default:
			rec.Label("memo", "undecided(repeated key)")
		}
	}
	return nil
}

func firstLines(s string, n int) string {
	count := 0
	for i := range s {
		if s[i] == '\n' {
			count++
			if count == n {
				return s[:i]
			}
		}
	}
	return s
}

func genValidForMutation(t *rapid.T, w *world.World) kit.Transfer {
	return kit.GenTransfer(t, w, kit.TransferOpt{
		Route:          kit.RouteOpt{EnvValid: true, InternalClasses: []string{"plain"}},
		MaxActions:     1,
		KeepBelowLimit: true,
		Denoms:         []string{world.Uusdc, world.Uusdc, world.Ufoo, world.Gamm},
	})
}

// TestC14MutatedMemo: structure-aware mutation of valid memos inside an otherwise valid,
// orbiter-addressed packet, through the whole stack.
func TestC14MutatedMemo(t *testing.T) {
	w := prod(t)
	rec := kit.NewRecorder(t, "C14")
	rapid.Check(t, func(rt *rapid.T) {
		tr := genValidForMutation(rt, w)
		memo, err := kit.BuildMemo(w.Cdc, tr, true)
		if err != nil {
			rt.Fatalf("harness: valid transfer does not serialise: %v (%s)", err, kit.JSON(tr))
		}
		tree, err := kit.ParseJSON(memo)
		if err != nil {
			rt.Fatalf("harness: %v", err)
		}
		n := rapid.IntRange(1, 2).Draw(rt, "mutations")
		var muts []kit.Mutation
		for i := 0; i < n; i++ {
			muts = append(muts, kit.Mutate(rt, tree))
		}
		mutated := tree.String()
		tr.RawMemo = &mutated
		c := caseC14{Transfer: tr, Mutations: muts}

		rec.Eval()
		for _, m := range muts {
			rec.Label("mutation", m.Kind)
		}
		rec.Label("route", tr.Route.Kind)
		// non-trivial: the packet got past the ICS-20 decode and the receiver test, i.e. the
		// mutated memo reached the payload parser (true for every case of this generator);
		// distinct by memo text.
		rec.NonTrivial(mutated)
		rec.Sample(muts[0].Kind, map[string]any{"memo": truncate(mutated, 600), "mutations": muts})
		if err := checkC14(w, c, rec); err != nil {
			rec.Fail(rt, c, "%v", err)
		}
	})
	rec.Require("memo", "malformed", 10)
	rec.Require("memo", "well-formed", 5)
}

func truncate(s string, n int) string {
	if len(s) <= n {
		return s
	}
	return s[:n] + fmt.Sprintf("...(%d bytes)", len(s))
}

func init() {
	replay := func(raw json.RawMessage) error {
		c, err := decode[caseC14](raw)
		if err != nil {
			return fmt.Errorf("harness: %w", err)
		}
		return checkC14(prodW, c, nil)
	}
	kit.RegisterReplay("TestC14MutatedMemo", replay)
}
