package props

import (
	"encoding/base64"
	"encoding/json"
	"fmt"
	"strings"
	"testing"

	transfertypes "github.com/cosmos/ibc-go/v8/modules/apps/transfer/types"
	"pgregory.net/rapid"

	"verif/harness/kit"
	"verif/harness/light"
	"verif/harness/world"
)

// C14 — no input makes the receive path panic; malformed payloads are refused.

// caseFuzzPacket is the case format written by light.FuzzPacket.
type caseFuzzPacket struct {
	DataB64 string `json:"data_b64"`
	Port    string `json:"port"`
	Channel string `json:"channel"`
	Aspect  int    `json:"aspect"`
}

// caseC14 is one packet through the whole PROD stack on a branch of the root state.
type caseC14 struct {
	Transfer  kit.Transfer   `json:"transfer"`
	Mutations []kit.Mutation `json:"mutations,omitempty"`
}

// checkC14 is exec -> oracle for one packet: OnRecvPacket must return an acknowledgement, and an
// orbiter-addressed packet whose memo is not a well-formed payload must get an error
// acknowledgement.
func checkC14(w *world.World, c caseC14, rec *kit.Recorder) error {
	p, err := kit.BuildPacket(w.Cdc, c.Transfer, false)
	if err != nil {
		return fmt.Errorf("harness: cannot build packet: %w", err)
	}
	ctx := w.Branch()
	out := world.Recv(ctx, w.Stack, p)
	if out.Panicked() {
		return fmt.Errorf("OnRecvPacket panicked: %v\n%s", out.Panic, firstLines(out.PanicStack, 40))
	}
	if out.Ack == nil {
		return fmt.Errorf("OnRecvPacket returned a nil acknowledgement")
	}
	if !out.Success && !out.ErrorAck() {
		return fmt.Errorf("unsuccessful acknowledgement is not a well-formed error acknowledgement: %q", out.AckBytes)
	}
	stage := "error-ack"
	if out.Success {
		stage = "success"
	}
	rec.Label("outcome", stage)
	rawMemo := c.Transfer.RawMemo
	toOrbiter := c.Transfer.RawData == nil && orbiterAddressed(c.Transfer.ReceiverString())
	if c.Transfer.RawData != nil {
		// raw packet data: receiver and memo are what the ICS-20 application's own codec reads
		var ref transfertypes.FungibleTokenPacketData
		if err := transfertypes.ModuleCdc.UnmarshalJSON(c.Transfer.RawData, &ref); err == nil && orbiterAddressed(ref.Receiver) {
			toOrbiter, rawMemo = true, &ref.Memo
			rec.Label("raw", "ICS-20 data addressed to the orbiter account")
		}
	}
	if rawMemo != nil && toOrbiter {
		verdict, why := kit.WellFormedMemo(*rawMemo)
		switch verdict {
		case kit.Malformed:
			rec.Label("memo", "malformed")
			if out.Success {
				return fmt.Errorf("malformed payload (%s) addressed to the orbiter account got a success acknowledgement", why)
			}
		case kit.WellFormed:
			rec.Label("memo", "well-formed")
		default:
			rec.Label("memo", "undecided(repeated key)")
		}
	}
	return nil
}

func firstLines(s string, n int) string {
	count := 0
	for i := range s {
		if s[i] == '\n' {
			count++
			if count == n {
				return s[:i]
			}
		}
	}
	return s
}

func genValidForMutation(t *rapid.T, w *world.World) kit.Transfer {
	return kit.GenTransfer(t, w, kit.TransferOpt{
		Route:          kit.RouteOpt{EnvValid: true, InternalClasses: []string{"plain"}},
		MaxActions:     1,
		KeepBelowLimit: true,
		Denoms:         []string{world.Uusdc, world.Uusdc, world.Ufoo, world.Gamm},
	})
}

// TestC14MutatedMemo: structure-aware mutation of valid memos inside an otherwise valid,
// orbiter-addressed packet, through the whole stack.
func TestC14MutatedMemo(t *testing.T) {
	w := prod(t)
	rec := kit.NewRecorder(t, "C14")
	rapid.Check(t, func(rt *rapid.T) {
		tr := genValidForMutation(rt, w)
		memo, err := kit.BuildMemo(w.Cdc, tr, true)
		if err != nil {
			rt.Fatalf("harness: valid transfer does not serialise: %v (%s)", err, kit.JSON(tr))
		}
		tree, err := kit.ParseJSON(memo)
		if err != nil {
			rt.Fatalf("harness: %v", err)
		}
		n := rapid.IntRange(1, 2).Draw(rt, "mutations")
		var muts []kit.Mutation
		if chance(rt, "hostile-actions", 8) {
			kit.HostileActionList(rt, tree)
			muts = append(muts, kit.Mutation{Kind: "hostile-action-list", Path: "/orbiter/pre_actions"})
		}
		for i := 0; i < n; i++ {
			muts = append(muts, kit.Mutate(rt, tree))
		}
		mutated := tree.String()
		if chance(rt, "text-mutation", 10) {
			var k string
			mutated, k = kit.TextMutation(rt, mutated)
			muts = append(muts, kit.Mutation{Kind: "text:" + k})
		}
		tr.RawMemo = &mutated
		c := caseC14{Transfer: tr, Mutations: muts}

		rec.Eval()
		for _, m := range muts {
			rec.Label("mutation", m.Kind)
		}
		rec.Label("route", tr.Route.Kind)
		// non-trivial: the packet got past the ICS-20 decode and the receiver test, i.e. the
		// mutated memo reached the payload parser (true for every case of this generator);
		// distinct by memo text.
		rec.NonTrivial(mutated)
		rec.Sample(muts[0].Kind, map[string]any{"memo": truncate(mutated, 600), "mutations": muts})
		if err := checkC14(w, c, rec); err != nil {
			rec.Fail(rt, c, "%v", err)
		}
	})
	rec.Require("memo", "malformed", 10)
	rec.Require("memo", "well-formed", 5)
}

func truncate(s string, n int) string {
	if len(s) <= n {
		return s
	}
	return s[:n] + fmt.Sprintf("...(%d bytes)", len(s))
}

func init() {
	replay := func(raw json.RawMessage) error {
		c, err := decode[caseC14](raw)
		if err != nil {
			return fmt.Errorf("harness: %w", err)
		}
		return checkC14(prodW, c, nil)
	}
	kit.RegisterReplay("TestC14MutatedMemo", replay)
}

// ---------------------------------------------------------------------------------------------
// (b) attribute extremes

var hostileFixed = []string{
	"0", "-1", "1", "+5", "007", "0x10", "1_0", "1.5", "1e3", "", " ", "abc",
	"57896044618658097711785492504343953926634992332820282019728792003956564819968",  // 2^255
	"115792089237316195423570985008687907853269984665640564039457584007913129639935", // 2^256-1
	"115792089237316195423570985008687907853269984665640564039457584007913129639936", // 2^256
	"340282366920938463463374607431768211456",                                        // 2^128
}

var hostileAddrs = []string{
	"", " ", "noble1", "garbage", "cosmos1wnlew8ss0sqclfalvj6jkcyvnwq79fd74qxxue",
	"noble1wnlew8ss0sqclfalvj6jkcyvnwq79fd7xxxxxx", "NOBLE1", "\x00",
}

func bytesOfLen(t *rapid.T, label string) []byte {
	n := pick(t, label+"/len", []int{0, 1, 20, 31, 32, 32, 32, 33, 40, 64})
	if n == 0 && chance(t, label+"/nil", 50) {
		return nil
	}
	b := make([]byte, n)
	fill := byte(rapid.IntRange(0, 3).Draw(t, label+"/fill"))
	for i := range b {
		b[i] = fill
	}
	return b
}

func pick[T any](t *rapid.T, label string, xs []T) T { return kit.Pick(t, label, xs) }

func chance(t *rapid.T, label string, percent int) bool { return kit.Chance(t, label, percent) }

func genHostileFees(t *rapid.T) []kit.Fee {
	if chance(t, "hf/spelled", 25) {
		// valid recipients and small valid entries, one fixed amount in an odd spelling: gets past
		// every other check, so that the spelled amount reaches the computation
		n := rapid.IntRange(0, 3).Draw(t, "hf/sp/n")
		var fees []kit.Fee
		for i := 0; i < n; i++ {
			fees = append(fees, kit.Fee{Recipient: kit.PlainUser(t, fmt.Sprintf("hf/sp/%d", i)), Bps: uint32(1 + rapid.IntRange(0, 99).Draw(t, fmt.Sprintf("hf/sp/%d/bps", i)))})
		}
		at := rapid.IntRange(0, len(fees)).Draw(t, "hf/sp/at")
		sp := kit.Fee{Recipient: kit.PlainUser(t, "hf/sp/rcpt"), Fixed: kit.NumberSpelling(t, "hf/sp/v")}
		return append(fees[:at], append([]kit.Fee{sp}, fees[at:]...)...)
	}
	n := rapid.IntRange(0, 7).Draw(t, "hf/n")
	var fees []kit.Fee
	for i := 0; i < n; i++ {
		var rcpt string
		if chance(t, fmt.Sprintf("hf/%d/badaddr", i), 15) {
			rcpt = pick(t, fmt.Sprintf("hf/%d/addr", i), hostileAddrs)
		} else {
			rcpt, _ = kit.Recipient(t, fmt.Sprintf("hf/%d/rcpt", i), kit.RecipientClasses)
		}
		if chance(t, fmt.Sprintf("hf/%d/fixed", i), 50) {
			fees = append(fees, kit.Fee{Recipient: rcpt, Fixed: pick(t, fmt.Sprintf("hf/%d/amt", i), hostileFixed)})
		} else {
			bps := pick(t, fmt.Sprintf("hf/%d/bps", i), []uint32{0, 1, 2, 5000, 9999, 10000, 10001, 65535, 4294967295})
			fees = append(fees, kit.Fee{Recipient: rcpt, Bps: bps})
		}
	}
	return fees
}

func genHostileRoute(t *rapid.T, w *world.World, denom string) kit.Route {
	// Start from a route the environment accepts (mostly), then apply 0-2 perturbations, so that
	// a good share of cases gets past the first validation and reaches the deeper code.
	r := kit.GenRoute(t, w, denom, kit.RouteOpt{EnvValid: chance(t, "hr/envvalid", 80), InternalClasses: kit.RecipientClasses})
	n := pick(t, "hr/n", []int{0, 1, 1, 1, 2})
	for i := 0; i < n; i++ {
		l := fmt.Sprintf("hr/%d", i)
		var options []string
		switch r.Kind {
		case "cctp":
			options = []string{"mint", "caller", "domain"}
		case "hyp":
			options = []string{"token", "rcpt", "hook", "meta", "gas", "fee", "fee", "domain", "charging-hook", "charging-hook"}
		case "internal":
			options = []string{"to", "to"}
		}
		options = append(options, "proto", "attrkind", "passthrough")
		switch pick(t, l+"/what", options) {
		case "mint":
			r.MintRecipient = bytesOfLen(t, l+"/mint")
		case "caller":
			r.DestCaller = bytesOfLen(t, l+"/caller")
		case "domain":
			r.Domain = pick(t, l+"/domain", []uint32{0, 4, 6, 1196573006, 1313817164, 4294967295})
		case "token":
			r.TokenID = bytesOfLen(t, l+"/token")
		case "rcpt":
			r.Recipient = bytesOfLen(t, l+"/rcpt")
		case "hook":
			r.HookID = bytesOfLen(t, l+"/hook")
		case "charging-hook":
			// a hook of the environment that computes and charges a fee from the gas limit (an
			// interchain gas paymaster), with gas limits and fee caps of every magnitude
			fd := pick(t, l+"/igp", world.IGPDenoms)
			r.HookID = w.HypIGP[fd]
			r.GasLimit = kit.AnyBits(t, l+"/igp/gas").String()
			r.MaxFeeDenom = pick(t, l+"/igp/feed", []string{fd, fd, denom, "ufoo"})
			r.MaxFeeAmount = kit.AnyBits(t, l+"/igp/fee").String()
		case "meta":
			r.HookMeta = pick(t, l+"/meta", []string{"0x", "0xzz", "dead", "0x0", "0x\x00", "0X00", "0x" + strings.Repeat("ab", 3000)})
		case "gas":
			r.GasLimit = pick(t, l+"/gas", []string{"-1", "0", "1",
				"115792089237316195423570985008687907853269984665640564039457584007913129639935",
				"-115792089237316195423570985008687907853269984665640564039457584007913129639935"})
		case "fee":
			r.MaxFeeDenom = pick(t, l+"/feed", []string{"", "1", "a", "uusdc", "ufoo", "UUSDC!", "ibc/xyz", "uhuge", "gamm/pool/1"})
			r.MaxFeeAmount = pick(t, l+"/feea", []string{"-1", "0", "1", "1000000000000000000000",
				"115792089237316195423570985008687907853269984665640564039457584007913129639935"})
		case "to":
			if chance(t, l+"/to/bad", 50) {
				r.To = pick(t, l+"/tov", hostileAddrs)
			} else {
				r.To, _ = kit.Recipient(t, l+"/torcpt", kit.RecipientClasses)
			}
		case "proto":
			id := pick(t, l+"/proto", []int32{-1, 0, 1, 2, 3, 4, 5, 6, 2147483647})
			r.ProtoID = &id
		case "attrkind":
			r.AttrKind = pick(t, l+"/attrkind", []string{"cctp", "hyp", "internal", "fee"})
		case "passthrough":
			r.Passthrough = make([]byte, pick(t, l+"/ptlen", []int{1, 100, 70000}))
		}
	}
	return r
}

// TestC14Attributes: payloads serialised without the validating constructors, with extreme
// attribute values, through the whole stack.
func TestC14Attributes(t *testing.T) {
	w := prod(t)
	rec := kit.NewRecorder(t, "C14")
	rapid.Check(t, func(rt *rapid.T) {
		denom := pick(rt, "denom", kit.AllDenoms)
		ch := rapid.IntRange(0, world.NumChannels-1).Draw(rt, "channel")
		if denom == world.Uhuge {
			ch = 0
		}
		A, _ := kit.Amount(rt, "amount", denom)
		tr := kit.Transfer{Channel: ch, Denom: denom, Amount: A.String(), Route: genHostileRoute(rt, w, denom)}
		if chance(rt, "with-fee", 70) {
			if chance(rt, "hostile-fee", 50) {
				tr.Actions = []kit.Action{{Kind: "fee", Fees: genHostileFees(rt)}}
			} else {
				tr.Actions = []kit.Action{{Kind: "fee", Fees: kit.ValidFees(rt, "fees", A, kit.RecipientClasses)}}
			}
			if chance(rt, "two-actions", 10) {
				tr.Actions = append(tr.Actions, kit.Action{Kind: pick(rt, "second", []string{"fee", "swap"})})
			}
		}
		if _, err := kit.BuildMemo(w.Cdc, tr, false); err != nil {
			// the codec itself cannot serialise this combination; nothing to deliver
			rec.Label("built", "unserialisable")
			return
		}
		c := caseC14{Transfer: tr}
		rec.Eval()
		rec.Label("route", tr.Route.Kind)
		rec.NonTrivial(kit.JSON(tr))
		rec.Sample("attributes/"+tr.Route.Kind, tr)
		if err := checkC14(w, c, rec); err != nil {
			rec.Fail(rt, c, "%v", err)
		}
	})
	rec.Require("outcome", "success", 5)
	rec.Require("outcome", "error-ack", 50)
}

// ---------------------------------------------------------------------------------------------
// (c) raw packet data, denominations, amounts, identifiers

var hostileDenomTails = []string{
	"", "!", "x", "/", "//", "a//b", "uusdc/", "/uusdc", "UUSDC", "uusdc ", " uusdc", "uu sdc", "1usdc", "u",
	"ibc/", "ibc/ZZ", "transfer/channel-3", "transfer/channel-3/uusdc", "\x00", "uusdc\x00", "😀",
	"a-very-long-denomination-name-that-goes-beyond-the-128-characters-allowed-by-the-sdk-regular-expression-for-coin-denominations-xxxxxxxxxxxxxxxx",
}

var hostileAmounts = []string{
	"", "0", "-5", "-0", "+5", "007", "0x10", "1_0", "1.5", "1e3", " 5", "5 ", "abc", "null",
	"115792089237316195423570985008687907853269984665640564039457584007913129639935",
	"115792089237316195423570985008687907853269984665640564039457584007913129639936",
}

var hostileIDs = []string{
	"", " ", "channel-", "channel-x", "channel--1", "channel-007", "channel-18446744073709551616", "Channel-0", "transfer",
	"a", "channel-0/", "channel-0:1", "connection-0", "\x00",
	"a-very-long-identifier-a-very-long-identifier-a-very-long-identifier-a-very-long-identifier-a-very-long-identifier-a-very-long-identifier-x",
}

func validMemo(t *rapid.T, w *world.World, denom string) string {
	tr := kit.Transfer{Denom: denom, Amount: "1", Route: kit.GenRoute(t, w, denom, kit.RouteOpt{EnvValid: true})}
	memo, err := kit.BuildMemo(w.Cdc, tr, true)
	if err != nil {
		t.Fatalf("harness: %v", err)
	}
	return memo
}

func TestC14RawPacket(t *testing.T) {
	w := prod(t)
	rec := kit.NewRecorder(t, "C14")
	rapid.Check(t, func(rt *rapid.T) {
		denom := pick(rt, "denom", []string{world.Uusdc, world.Ufoo, world.Gamm})
		ch := rapid.IntRange(0, world.NumChannels-1).Draw(rt, "channel")
		tr := kit.Transfer{Channel: ch, Denom: denom, Amount: "1000", Route: kit.Route{Kind: "internal", To: kit.PlainUser(rt, "to")}}
		memo := validMemo(rt, w, denom)
		tr.RawMemo = &memo
		class := pick(rt, "class", []string{"denom", "denom", "amount", "amount", "ids", "ids", "bytes", "json", "spelling", "spelling", "receiver", "memo-bytes"})
		reached := true
		switch class {
		case "denom":
			prefix := pick(rt, "denom/prefix", []string{
				world.ReturnDenom(ch, ""), world.ReturnDenom(ch, "") + world.ReturnDenom(ch, ""), "transfer/channel-0/", "", "transfer/", "/",
			})
			d := prefix + pick(rt, "denom/tail", hostileDenomTails)
			tr.RawDenom = &d
		case "amount":
			a := pick(rt, "amount/v", hostileAmounts)
			tr.RawAmount = &a
		case "ids":
			which := rapid.IntRange(0, 2).Draw(rt, "ids/which")
			v := pick(rt, "ids/v", hostileIDs)
			switch which {
			case 0:
				tr.SrcPort = &v
			case 1:
				tr.SrcChannel = &v
			default:
				tr.DstChannel = &v
			}
		case "bytes":
			tr.RawData = rapid.SliceOfN(rapid.Byte(), 0, 200).Draw(rt, "bytes")
			reached = false
		case "spelling":
			// JSON spelling variants of the packet data (repeated members, null, name case,
			// unknown members, trailing bytes, escapes) around a valid or a malformed memo
			f := kit.PacketFields{Denom: world.ReturnDenom(ch, denom), Amount: "1000", Sender: world.ForeignSender, Receiver: world.OrbiterAddr.String(), Memo: memo}
			alt := kit.PlainUser(rt, "spelling/alt")
			if chance(rt, "spelling/foreign-first", 30) {
				f.Receiver, alt = alt, f.Receiver
			}
			if chance(rt, "spelling/badmemo", 40) {
				f.Memo = pick(rt, "spelling/memo", []string{`{"orbiter":{}}`, `{"orbiter":null}`, `{"orbiter":{"pre_actions":[null]}}`, "{}", "x", `{"orbiter":{"forwarding":{"protocol_id":9}}}`})
			}
			text, _ := kit.SpellPacketData(rt, "spelling", f, alt)
			tr.RawData = []byte(text)
		case "json":
			base := string(world.FTData{Denom: world.ReturnDenom(ch, denom), Amount: "1000", Sender: world.ForeignSender, Receiver: world.OrbiterAddr.String(), Memo: memo}.Bytes())
			variant := pick(rt, "json/variant", []string{"truncate", "extend", "array", "null", "number", "string", "dupkey", "unknown", "memo-object", "nested"})
			switch variant {
			case "truncate":
				base = base[:rapid.IntRange(0, len(base)-1).Draw(rt, "json/cut")]
				reached = false
			case "extend":
				base += pick(rt, "json/ext", []string{"x", "{}", " ", "\n", "\x00"})
			case "array":
				base = "[" + base + "]"
				reached = false
			case "null":
				base = "null"
				reached = false
			case "number":
				base = "1"
				reached = false
			case "string":
				base = `"` + world.OrbiterAddr.String() + `"`
				reached = false
			case "dupkey":
				base = base[:len(base)-1] + `,"receiver":"` + kit.PlainUser(rt, "dup/rcv") + `"}`
			case "unknown":
				base = base[:len(base)-1] + `,"extra":1}`
			case "memo-object":
				base = `{"denom":"` + world.ReturnDenom(ch, denom) + `","amount":"1000","sender":"` + world.ForeignSender + `","receiver":"` + world.OrbiterAddr.String() + `","memo":` + memo + `}`
			case "nested":
				base = `{"denom":{"a":1},"amount":[1],"sender":null,"receiver":"` + world.OrbiterAddr.String() + `","memo":1}`
			}
			tr.RawData = []byte(base)
		case "receiver":
			tr.Receiver = pick(rt, "receiver/v", []string{
				kit.Upper(world.OrbiterAddr.String()), world.OrbiterAddr.String() + " ", " " + world.OrbiterAddr.String(),
				kit.OtherPrefix(world.OrbiterAddr.String(), "cosmos"), "orbiter", "", "\x00", world.DustAddr.String(),
				world.OrbiterAddr.String()[:len(world.OrbiterAddr.String())-1],
			})
		case "memo-bytes":
			m := string(rapid.SliceOfN(rapid.Byte(), 0, 120).Draw(rt, "memo/bytes"))
			if chance(rt, "memo/prefix", 50) {
				m = `{"orbiter":` + m
			}
			tr.RawMemo = &m
		}
		c := caseC14{Transfer: tr}
		rec.Eval()
		rec.Label("class", class)
		if reached {
			rec.NonTrivial(kit.JSON(tr))
		}
		rec.Sample("raw/"+class, tr)
		if err := checkC14(w, c, rec); err != nil {
			rec.Fail(rt, c, "%v", err)
		}
	})
}

func init() {
	replay := func(raw json.RawMessage) error {
		c, err := decode[caseC14](raw)
		if err != nil {
			return fmt.Errorf("harness: %w", err)
		}
		return checkC14(prodW, c, nil)
	}
	kit.RegisterReplay("TestC14Attributes", replay)
	kit.RegisterReplay("TestC14RawPacket", replay)
	// a crasher saved by the native fuzz target (harness/light) replays through the same oracle
	kit.RegisterReplay("FuzzPacket", func(raw json.RawMessage) error {
		c, err := decode[caseFuzzPacket](raw)
		if err != nil {
			return fmt.Errorf("harness: %w", err)
		}
		data, err := base64.StdEncoding.DecodeString(c.DataB64)
		if err != nil {
			return fmt.Errorf("harness: %w", err)
		}
		_, err = light.CheckPacket(data, c.Port, c.Channel, light.Aspect(c.Aspect))
		return err
	})
}

// ---------------------------------------------------------------------------------------------
// (d) histories: panics that need a prior state (statistics at the 256-bit bound, accounts
// created by earlier packets, pauses, dust).

func runC14History(w *world.World, c caseHistory, rec *kit.Recorder) error {
	m := kit.NewMachine(w)
	for i, s := range c.History {
		o := m.Do(s)
		if s.Packet == nil {
			continue
		}
		if o.BuildErr != nil {
			continue
		}
		if s.Packet.RawData == nil && orbiterAddressed(s.Packet.ReceiverString()) {
			rec.NonTrivial(fmt.Sprintf("%d|%s", i, kit.JSON(s.Packet)))
		}
		if o.Out.Panicked() {
			return fmt.Errorf("step %d (%s): OnRecvPacket panicked: %v\n%s", i, kit.JSON(s), o.Out.Panic, firstLines(o.Out.PanicStack, 40))
		}
		if o.Out.Ack == nil {
			return fmt.Errorf("step %d: nil acknowledgement", i)
		}
		if o.Out.Success {
			rec.Label("outcome", "success")
		} else {
			rec.Label("outcome", "error-ack")
		}
	}
	return nil
}

// genHugeHistory aims at the 256-bit bound of the statistics: transfers of the 2^256-1-supply
// denom on one route with the funds re-escrowed in between.
func genHugeHistory(t *rapid.T, w *world.World) kit.History {
	round := rapid.Custom(func(t *rapid.T) kit.Transfer {
		user := pick(t, "huge/user", []string{"alice", "bob"})
		amt := pick(t, "huge/amt", []string{
			"57896044618658097711785492504343953926634992332820282019728792003956564819968", // 2^255
			"57896044618658097711785492504343953926634992332820282019728792003956564819967",
			"115792089237316195423570985008687907853269984665640564039457584007913129639935",
			"38597363079105398474523661669562635951089994888546854679819194669304376546645", // ~2^256/3
			"1",
		})
		var route kit.Route
		if chance(t, "huge/hyp", 30) {
			route = kit.Route{Kind: "hyp", Domain: 1, TokenID: w.HypToken[world.Uhuge], Recipient: kit.Fill32(1)}
		} else {
			route = kit.Route{Kind: "internal", To: world.Addr(user).String()}
		}
		tr := kit.Transfer{Channel: 0, Denom: world.Uhuge, Amount: amt, Route: route}
		if chance(t, "huge/fee", 30) {
			tr.Actions = []kit.Action{{Kind: "fee", Fees: []kit.Fee{{Recipient: world.Addr("carol").String(), Bps: uint32(rapid.IntRange(1, 10000).Draw(t, "huge/bps"))}}}}
		}
		return tr
	})
	var h kit.History
	for _, tr := range rapid.SliceOfN(round, 2, 6).Draw(t, "huge/rounds") {
		tr := tr
		h = append(h, kit.Step{Packet: &tr})
		// the recipients transfer the coins out again: back into the channel escrow.
		// (Coins locked as Hyperlane collateral stay locked: only an incoming Hyperlane message
		// releases them, together with warp's own collateral bookkeeping.)
		for _, u := range []string{"alice", "bob", "carol"} {
			h = append(h, kit.Step{Env: &kit.Env{Kind: "reescrow", User: u, Channel: 0, Denom: world.Uhuge, Amount: "all"}})
		}
	}
	return h
}

func TestC14History(t *testing.T) {
	w := prod(t)
	rec := kit.NewRecorder(t, "C14")
	opt := historyOptMixed(w, maxSteps())
	rapid.Check(t, func(rt *rapid.T) {
		var c caseHistory
		if chance(rt, "huge", 25) {
			c.History = genHugeHistory(rt, w)
			rec.Label("history", "huge-amounts")
		} else if chance(rt, "rich-pauses", 25) {
			// every packet meets a state in which several protocols (with and without a
			// controller), actions and counterparties are paused
			for _, p := range []string{"PROTOCOL_IBC", "PROTOCOL_CCTP", "PROTOCOL_HYPERLANE", "PROTOCOL_INTERNAL"} {
				if chance(rt, "rich/"+p, 50) {
					c.History = append(c.History, kit.Step{Admin: &kit.Admin{Kind: "pause_protocol", Protocol: p}})
				}
			}
			for _, a := range []string{"ACTION_FEE", "ACTION_SWAP"} {
				if chance(rt, "rich/"+a, 40) {
					c.History = append(c.History, kit.Step{Admin: &kit.Admin{Kind: "pause_action", Action: a}})
				}
			}
			if chance(rt, "rich/cc", 50) {
				c.History = append(c.History,
					kit.Step{Admin: &kit.Admin{Kind: "pause_cc", Protocol: "PROTOCOL_CCTP", Ids: []string{"0", "1"}}},
					kit.Step{Admin: &kit.Admin{Kind: "pause_cc", Protocol: "PROTOCOL_HYPERLANE", Ids: []string{"1"}}},
					kit.Step{Admin: &kit.Admin{Kind: "pause_cc", Protocol: "PROTOCOL_INTERNAL", Ids: []string{"noble"}}},
					kit.Step{Admin: &kit.Admin{Kind: "pause_cc", Protocol: "PROTOCOL_IBC", Ids: []string{"channel-0", "channel-1"}}})
			}
			n := 2 + rapid.IntRange(0, 6).Draw(rt, "rich/packets")
			for i := 0; i < n; i++ {
				tr := genMixedPacket(rt, w)
				c.History = append(c.History, kit.Step{Packet: &tr})
			}
			rec.Label("history", "rich-pauses")
		} else {
			c.History = kit.GenHistory(rt, opt)
			rec.Label("history", "mixed")
		}
		rec.Eval()
		if err := runC14History(w, c, rec); err != nil {
			rec.Fail(rt, c, "%v", err)
		}
	})
	rec.Require("outcome", "success", 20)
}

func init() {
	kit.RegisterReplay("TestC14History", func(raw json.RawMessage) error {
		c, err := decode[caseHistory](raw)
		if err != nil {
			return fmt.Errorf("harness: %w", err)
		}
		return runC14History(prodW, c, nil)
	})
}
