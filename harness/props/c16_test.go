package props

import (
	"encoding/json"
	"fmt"
	"math/big"
	"strings"
	"testing"

	"pgregory.net/rapid"

	transfertypes "github.com/cosmos/ibc-go/v8/modules/apps/transfer/types"

	adapterctrl "github.com/noble-assets/orbiter/v2/controller/adapter"

	"verif/harness/kit"
	"verif/harness/world"
)

// C16 — only returning Noble-native tokens are processed, under the coin ICS-20 credits.
// Differential against the ICS-20 application itself.

type caseC16 struct {
	Channel    int    `json:"channel"`
	SrcPort    string `json:"src_port"`
	SrcChannel string `json:"src_channel"`
	Denom      string `json:"denom"`  // packet denom, verbatim
	Amount     string `json:"amount"` // packet amount, verbatim
}

var c16Bases = []string{
	world.Uusdc, world.Ufoo, world.Gamm, world.Tricky, world.IBCVoucher, world.Uhuge, world.OddDenom, world.LongDenom,
	"", "a//b", "uatom", "ibc/0000", "UUSDC", "uusdc/", "transfer/channel-3/uusdc",
}

var c16Amounts = []string{"1", "1000", "999999999", "+5", "007", "0x10", "1_0", "0", "-5", "1.5", "", "115792089237316195423570985008687907853269984665640564039457584007913129639935"}

func genC16(t *rapid.T) caseC16 {
	ch := rapid.IntRange(0, world.NumChannels-1).Draw(t, "channel")
	c := caseC16{Channel: ch, SrcPort: world.CounterpartyPort, SrcChannel: world.CounterpartyChannel(ch)}
	lookalike := "" // the prefix of a DIFFERENT channel whose identifier looks like this one's
	switch pick(t, "src", []string{"own", "own", "own", "own", "other-channel", "other-port", "noble-side", "spelled-channel", "spelled-channel", "spelled-port"}) {
	case "spelled-channel":
		// the counterparty chooses its own channel identifier: ICS-24 only constrains length and
		// character set, so other spellings of "the same number" are different channels
		n := pick(t, "src/spell/n", []int{7 + ch, 7 + ch, 0, 1})
		lookalike = fmt.Sprintf("%s/channel-%d/", c.SrcPort, n)
		c.SrcChannel = fmt.Sprintf(pick(t, "src/spell/fmt", []string{"channel-0%d", "channel-00%d", "channel-%d ", "Channel-%d", "channel-+%d", "channel%d", "channel-%d-x", "channel_%d", "channel-%dx"}), n)
	case "spelled-port":
		c.SrcPort = pick(t, "src/spell/port", []string{"Transfer", "transfer ", "transfer.", "wasm.noble1qyqszqgpqyqszqgpqyqszqgpqyqszqgpqyqszqgpqyqszqgpqyqszqgpqyqs5j2cl9", "xfer", "ics20-1"})
	case "other-channel":
		c.SrcChannel = pick(t, "src/ch", []string{"channel-0", "channel-8", "channel-99"})
	case "other-port":
		c.SrcPort = pick(t, "src/port", []string{"icahost", "transfer2", "wasm.abc"})
	case "noble-side":
		c.SrcChannel = world.NobleChannel(ch)
	}
	own := c.SrcPort + "/" + c.SrcChannel + "/"
	hops := []string{own, own, own, "transfer/channel-0/", "transfer/channel-7/", "transfer/channel-3/", "junk/segment/", "transfer/", "/", "icahost/channel-7/"}
	n := pick(t, "hops", []int{1, 1, 1, 1, 0, 2, 2, 3})
	var sb strings.Builder
	for i := 0; i < n; i++ {
		if i == 0 && lookalike != "" && kit.Chance(t, "first-lookalike", 45) {
			sb.WriteString(lookalike)
		} else if i == 0 && kit.Chance(t, "first-own", 75) {
			sb.WriteString(own)
		} else {
			sb.WriteString(pick(t, fmt.Sprintf("hop%d", i), hops))
		}
	}
	sb.WriteString(pick(t, "base", c16Bases))
	c.Denom = sb.String()
	c.Amount = pick(t, "amount", c16Amounts)
	if kit.Chance(t, "amount/spelled", 25) {
		c.Amount = kit.NumberSpelling(t, "amount/spelling")
	}
	return c
}

func (c caseC16) transfer(receiver, memo string) kit.Transfer {
	return kit.Transfer{
		Channel: c.Channel, Denom: "?", Amount: "0", Receiver: receiver,
		RawDenom: &c.Denom, RawAmount: &c.Amount, RawMemo: &memo,
		SrcPort: &c.SrcPort, SrcChannel: &c.SrcChannel,
	}
}

func runC16(w *world.World, c caseC16, rec *kit.Recorder) error {
	rcpt := world.Addr("bob")
	memoTr := kit.Transfer{Route: kit.Route{Kind: "internal", To: rcpt.String()}}
	memo, err := kit.BuildMemo(w.Cdc, memoTr, true)
	if err != nil {
		return fmt.Errorf("harness: %w", err)
	}
	// reference: what the ICS-20 application does with this (port, channel, denom, amount) for a
	// neutral receiver
	neutral := world.Addr("carol")
	pRef, err := kit.BuildPacket(w.Cdc, c.transfer(neutral.String(), ""), false)
	if err != nil {
		return fmt.Errorf("harness: %w", err)
	}
	ctxR := w.Branch()
	beforeR := w.Ledger(ctxR)
	outR := world.Recv(ctxR, w.Ref, pRef)
	deltaR := world.Diff(beforeR, w.Ledger(ctxR))
	if outR.Panicked() {
		rec.Label("ics20", "reference panics")
		return nil
	}
	// classify the reference behaviour
	kind := "error"
	var D string
	var A *big.Int
	if outR.Success {
		kind = "other"
		for k, d := range deltaR {
			addr, denom := splitKey(k)
			if addr == neutral.String() && d.Sign() > 0 {
				D, A = denom, d
			}
		}
		switch {
		case D == "":
			kind = "success-without-credit"
		case deltaR.Get("supply", D).Sign() > 0:
			kind = "mint"
		case deltaR.Get(world.EscrowAddr(c.Channel).String(), D).Cmp(new(big.Int).Neg(A)) == 0:
			kind = "release"
		}
	}
	rec.Label("ics20", kind)
	// one-hop return: released from escrow AND D is literally the packet denom minus the single
	// prefix sourcePort/sourceChannel/
	prefix := c.SrcPort + "/" + c.SrcChannel + "/"
	oneHop := kind == "release" && strings.HasPrefix(c.Denom, prefix) && c.Denom[len(prefix):] == D

	// the orbiter run
	pOrb, err := kit.BuildPacket(w.Cdc, c.transfer("", memo), false)
	if err != nil {
		return fmt.Errorf("harness: %w", err)
	}
	ctxO := w.Branch()
	beforeO := w.Ledger(ctxO)
	outO := world.Recv(ctxO, w.Stack, pOrb)
	deltaO := world.Diff(beforeO, w.Ledger(ctxO))
	if outO.Panicked() {
		return fmt.Errorf("panic: %v", outO.Panic)
	}
	if strings.Count(c.Denom, "/") >= 2 {
		rec.NonTrivial(fmt.Sprintf("%s|%s|%s", c.Denom, c.SrcPort, c.SrcChannel))
	}
	portClass := "source port transfer"
	if c.SrcPort != world.CounterpartyPort {
		portClass = "other source port"
	}
	if outO.Success {
		rec.Label("accepted-over", portClass)
	}
	if !outO.Success {
		rec.Label("orbiter", "refused")
		if oneHop {
			rec.Label("orbiter", "refused a one-hop return (allowed: the statement only bounds acceptance)")
		}
		return nil
	}
	rec.Label("orbiter", "accepted")
	rec.Sample("accepted", c)
	if !oneHop {
		return fmt.Errorf("accepted a token that is not a one-hop return of a Noble-native denomination (ICS-20 reference: %s, credited %v %s; packet denom %q from %s/%s)",
			kind, A, D, c.Denom, c.SrcPort, c.SrcChannel)
	}
	// the coin acted on, forwarded and recorded is exactly (D, A) as ICS-20 credited it
	if got := deltaO.Get(rcpt.String(), D); got.Cmp(A) != 0 {
		return fmt.Errorf("ICS-20 credits %s %s but the recipient received %s (delta %s)", A, D, got, deltaO)
	}
	if got := deltaO.Get(world.EscrowAddr(c.Channel).String(), D); got.Cmp(new(big.Int).Neg(A)) != 0 {
		return fmt.Errorf("escrow delta %s, want -%s", got, A)
	}
	if len(deltaO) != 2 {
		return fmt.Errorf("unexpected ledger delta %s", deltaO)
	}
	impl := kit.ReadImpl(w, ctxO)
	k := kit.StatKey{SrcProto: kit.ProtoIBC, SrcCp: world.NobleChannel(c.Channel), DstProto: kit.ProtoInternal, DstCp: "noble", Denom: D}
	v, ok := impl.Amounts[k]
	if !ok || v.In.Cmp(A) != 0 || v.Out.Cmp(A) != 0 || len(impl.Amounts) != 1 {
		return fmt.Errorf("statistics do not record the credited coin (%s %s): %+v", A, D, impl.Amounts)
	}
	return nil
}

func TestC16Differential(t *testing.T) {
	w := prod(t)
	rec := kit.NewRecorder(t, "C16")
	rapid.Check(t, func(rt *rapid.T) {
		c := genC16(rt)
		rec.Eval()
		if err := runC16(w, c, rec); err != nil {
			rec.Fail(rt, c, "%v", err)
		}
	})
	rec.Require("orbiter", "accepted", 30)
	// non-vacuity per class of channel: genuine one-hop returns are accepted both over the usual
	// counterparty port and over other port names (a run in which a whole class is never
	// accepted decides nothing about that class: exit 2)
	rec.Require("accepted-over", "source port transfer", 20)
	rec.Require("accepted-over", "other source port", 3)
	rec.Require("ics20", "mint", 20)
	rec.Require("ics20", "release", 50)
}

// TestC16Unit compares RecoverNativeDenom with the transfer module's own reference functions.
type caseC16Unit struct {
	Denom, Port, Channel string
}

func runC16Unit(c caseC16Unit, rec *kit.Recorder) error {
	got, err := adapterctrl.RecoverNativeDenom(c.Denom, c.Port, c.Channel)
	// reference: receiver chain is source iff the denom carries the packet's own prefix; the
	// remainder must have no further trace
	isReturn := transfertypes.ReceiverChainIsSource(c.Port, c.Channel, c.Denom)
	var want string
	ok := false
	if isReturn {
		rest := c.Denom[len(transfertypes.GetDenomPrefix(c.Port, c.Channel)):]
		tr := transfertypes.ParseDenomTrace(rest)
		if tr.Path == "" {
			want, ok = rest, true
		}
	}
	if err == nil {
		rec.Label("unit", "accepted")
		rec.NonTrivial(c.Denom + "|" + c.Port + "|" + c.Channel)
		if !ok || got != want {
			return fmt.Errorf("RecoverNativeDenom(%q,%q,%q) = %q, the transfer module's reference gives ok=%v %q", c.Denom, c.Port, c.Channel, got, ok, want)
		}
		// what ICS-20 would release is the IBC denom of the remainder
		if ibc := transfertypes.ParseDenomTrace(want).IBCDenom(); ibc != got {
			return fmt.Errorf("orbiter acts on %q but ICS-20 releases %q", got, ibc)
		}
	} else {
		rec.Label("unit", "refused")
	}
	return nil
}

func TestC16Unit(t *testing.T) {
	rec := kit.NewRecorder(t, "C16")
	rapid.Check(t, func(rt *rapid.T) {
		g := genC16(rt)
		c := caseC16Unit{Denom: g.Denom, Port: g.SrcPort, Channel: g.SrcChannel}
		rec.Eval()
		if err := runC16Unit(c, rec); err != nil {
			rec.Fail(rt, c, "%v", err)
		}
	})
	rec.Require("unit", "accepted", 100)
	rec.Require("unit", "refused", 100)
}

func init() {
	kit.RegisterReplay("TestC16Differential", func(raw json.RawMessage) error {
		c, err := decode[caseC16](raw)
		if err != nil {
			return fmt.Errorf("harness: %w", err)
		}
		return runC16(prodW, c, nil)
	})
	kit.RegisterReplay("TestC16Unit", func(raw json.RawMessage) error {
		c, err := decode[caseC16Unit](raw)
		if err != nil {
			return fmt.Errorf("harness: %w", err)
		}
		return runC16Unit(c, nil)
	})
}
