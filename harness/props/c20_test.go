package props

import (
	"encoding/json"
	"fmt"
	"sort"
	"strconv"
	"strings"
	"testing"

	sdkmath "cosmossdk.io/math"
	"pgregory.net/rapid"

	orbitertypes "github.com/noble-assets/orbiter/v2/types"
	dispatchertypes "github.com/noble-assets/orbiter/v2/types/component/dispatcher"
	forwardertypes "github.com/noble-assets/orbiter/v2/types/component/forwarder"
	forwardingtypes "github.com/noble-assets/orbiter/v2/types/controller/forwarding"
	"github.com/noble-assets/orbiter/v2/types/core"

	"verif/harness/kit"
	"verif/harness/world"
)

// C20 — cross-chain identifiers are canonical and mean what transfers record.

type caseC20 struct {
	Protocol     int32  `json:"protocol"`
	Counterparty string `json:"counterparty"`
	// Other is a second pair for the injectivity check.
	OtherProtocol     int32  `json:"other_protocol"`
	OtherCounterparty string `json:"other_counterparty"`
}

var idProtocols = []int32{-1, 0, 1, 2, 3, 4, 5, 6, 10, 2147483647}

// genCounterparty draws from the grammar of the region where canonicity can fail.
func genCounterparty(t *rapid.T, label string) (string, string) {
	class := pick(t, label+"/class", []string{"decimal", "decimal", "signed", "leading-zero", "range", "space", "nonascii", "hex", "exp", "channel", "colon", "length", "empty", "nul", "free"})
	small := func() string { return strconv.Itoa(rapid.IntRange(0, 12).Draw(t, label+"/small")) }
	switch class {
	case "decimal":
		if kit.Chance(t, label+"/big", 30) {
			return strconv.FormatUint(uint64(rapid.Uint32().Draw(t, label+"/u32")), 10), class
		}
		return small(), class
	case "signed":
		return pick(t, label+"/sign", []string{"+", "-", "--", "+-"}) + small(), class
	case "leading-zero":
		return strings.Repeat("0", rapid.IntRange(1, 3).Draw(t, label+"/zeros")) + small(), class
	case "range":
		return pick(t, label+"/range", []string{"4294967295", "4294967296", "4294967297", "9223372036854775807", "9223372036854775808", "18446744073709551615", "18446744073709551616", "99999999999999999999999999999999"}), class
	case "space":
		return pick(t, label+"/space", []string{" ", "\t", "\n"}) + small() + pick(t, label+"/space2", []string{"", " "}), class
	case "nonascii":
		return pick(t, label+"/na", []string{"٥", "５", "५", "1٥", "①"}), class
	case "hex":
		return pick(t, label+"/hex", []string{"0x5", "0X5", "0b101", "0o5", "5_0", "0x", "a", "ff"}), class
	case "exp":
		return pick(t, label+"/exp", []string{"1e3", "5.0", "5.", ".5", "1E1", "5e0"}), class
	case "channel":
		return pick(t, label+"/ch", []string{"channel-0", "channel-7", "channel-007", "channel-", "channel--1", "channel-18446744073709551615", "channel-18446744073709551616", "Channel-0", "channel-0 ", "channel-+1"}), class
	case "colon":
		return pick(t, label+"/colon", []string{"1:3", ":", "5:", ":5", "2:5", "a:b:c", "noble:1"}), class
	case "length":
		n := pick(t, label+"/len", []int{31, 32, 33})
		if kit.Chance(t, label+"/digits", 50) {
			return strings.Repeat("1", n), class
		}
		return strings.Repeat("a", n), class
	case "empty":
		return "", class
	case "nul":
		return pick(t, label+"/nul", []string{"\x00", "5\x00", "\x005", "noble\x00"}), class
	default:
		return pick(t, label+"/free", []string{"noble", "x", "Noble", "osmosis-1", "5"}), class
	}
}

func isCanonicalDomain(s string) bool {
	v, err := strconv.ParseUint(s, 10, 32)
	return err == nil && strconv.FormatUint(v, 10) == s
}

func runC20Unit(c caseC20, rec *kit.Recorder) error {
	p := core.ProtocolID(c.Protocol)
	id, err := core.NewCrossChainID(p, c.Counterparty)
	if err != nil {
		rec.Label("unit", "refused")
		rec.Sample("refused", c)
		// conversely: every canonical decimal of a 32-bit domain is accepted for CCTP/Hyperlane
		if (c.Protocol == kit.ProtoCCTP || c.Protocol == kit.ProtoHyp) && isCanonicalDomain(c.Counterparty) {
			return fmt.Errorf("canonical domain %q is refused for protocol %d: %v", c.Counterparty, c.Protocol, err)
		}
		return nil
	}
	rec.Label("unit", "accepted")
	rec.Sample("accepted", map[string]any{"case": c, "id": id.ID()})
	// (1) round trip and injectivity
	back, err := core.ParseCrossChainID(id.ID())
	if err != nil {
		return fmt.Errorf("accepted pair (%d,%q) has textual form %q which does not parse back: %v", c.Protocol, c.Counterparty, id.ID(), err)
	}
	if back.ProtocolId != id.ProtocolId || back.CounterpartyId != id.CounterpartyId {
		return fmt.Errorf("(%d,%q) -> %q -> (%d,%q)", c.Protocol, c.Counterparty, id.ID(), back.ProtocolId, back.CounterpartyId)
	}
	if other, err := core.NewCrossChainID(core.ProtocolID(c.OtherProtocol), c.OtherCounterparty); err == nil {
		if other.ID() == id.ID() && (other.ProtocolId != id.ProtocolId || other.CounterpartyId != id.CounterpartyId) {
			return fmt.Errorf("distinct pairs (%d,%q) and (%d,%q) share the textual form %q", c.Protocol, c.Counterparty, c.OtherProtocol, c.OtherCounterparty, id.ID())
		}
	}
	// (2) canonicity for CCTP and Hyperlane
	if c.Protocol == kit.ProtoCCTP || c.Protocol == kit.ProtoHyp {
		rec.NonTrivial(fmt.Sprintf("%d|%s", c.Protocol, c.Counterparty))
		if !isCanonicalDomain(c.Counterparty) {
			return fmt.Errorf("counterparty %q is accepted for protocol %d but is not the decimal form of a 32-bit domain", c.Counterparty, c.Protocol)
		}
		v, _ := strconv.ParseUint(c.Counterparty, 10, 32)
		if got := (&forwardingtypes.CCTPAttributes{DestinationDomain: uint32(v)}).CounterpartyID(); got != c.Counterparty {
			return fmt.Errorf("CCTP attributes record domain %d as %q, the accepted identifier is %q", v, got, c.Counterparty)
		}
		if got := (&forwardingtypes.HypAttributes{DestinationDomain: uint32(v)}).CounterpartyID(); got != c.Counterparty {
			return fmt.Errorf("Hyperlane attributes record domain %d as %q, the accepted identifier is %q", v, got, c.Counterparty)
		}
	}
	// every other acceptance path agrees with the constructor: genesis validation
	g := orbitertypes.DefaultGenesisState()
	g.ForwarderGenesis.PausedCrossChainIds = []*core.CrossChainID{{ProtocolId: p, CounterpartyId: c.Counterparty}}
	if err := g.Validate(); err != nil {
		return fmt.Errorf("pair (%d,%q) is accepted by NewCrossChainID but refused by genesis validation: %v", c.Protocol, c.Counterparty, err)
	}
	g = orbitertypes.DefaultGenesisState()
	g.DispatcherGenesis.DispatchedCounts = []dispatchertypes.DispatchCountEntry{{SourceId: &id, DestinationId: &id, Count: 1}}
	if err := g.Validate(); err != nil {
		return fmt.Errorf("pair (%d,%q) refused in a dispatcher genesis entry: %v", c.Protocol, c.Counterparty, err)
	}
	return nil
}

// runC20Paths checks the remaining acceptance paths for CCTP/Hyperlane strings: genesis
// validation, the pause message and the pause query must not accept a non-canonical string.
func runC20Paths(w *world.World, c caseC20, rec *kit.Recorder) error {
	if c.Protocol != kit.ProtoCCTP && c.Protocol != kit.ProtoHyp {
		return nil
	}
	canonical := isCanonicalDomain(c.Counterparty)
	name := kit.ProtocolName(c.Protocol)
	g := orbitertypes.DefaultGenesisState()
	g.ForwarderGenesis.PausedCrossChainIds = []*core.CrossChainID{{ProtocolId: core.ProtocolID(c.Protocol), CounterpartyId: c.Counterparty}}
	gerr := g.Validate()
	ctx := w.Branch()
	msg, _ := kit.BuildAdmin(kit.Admin{Kind: "pause_cc", Protocol: name, Ids: []string{c.Counterparty}})
	res := w.Tx(ctx, msg)
	var q forwardertypes.QueryIsCrossChainPausedResponse
	qerr := w.Query(ctx, fwdQuery+"IsCrossChainPaused", &forwardertypes.QueryIsCrossChainPausedRequest{ProtocolId: name, CounterpartyId: c.Counterparty}, &q)
	// the same acceptance paths in a state where the protocol is paused as a whole: what counts as
	// an identifier does not depend on the pause state
	pctx := w.Branch()
	pmsg, _ := kit.BuildAdmin(kit.Admin{Kind: "pause_protocol", Protocol: name})
	if r := w.Tx(pctx, pmsg); !r.OK() {
		return fmt.Errorf("harness: pausing %s failed: %v", name, r.Err)
	}
	pres := w.Tx(pctx, msg)
	var pq forwardertypes.QueryIsCrossChainPausedResponse
	pqerr := w.Query(pctx, fwdQuery+"IsCrossChainPaused", &forwardertypes.QueryIsCrossChainPausedRequest{ProtocolId: name, CounterpartyId: c.Counterparty}, &pq)
	if !canonical {
		switch {
		case pres.OK():
			return fmt.Errorf("with %s paused as a whole, PauseCrossChains accepts the non-canonical counterparty %q", name, c.Counterparty)
		case pqerr == nil:
			return fmt.Errorf("with %s paused as a whole, IsCrossChainPaused accepts the non-canonical counterparty %q (answer: paused=%v)", name, c.Counterparty, pq.IsPaused)
		}
	} else if pqerr != nil {
		return fmt.Errorf("with %s paused as a whole, IsCrossChainPaused refuses the canonical domain %q: %v", name, c.Counterparty, pqerr)
	}
	// the dispatcher genesis carries cross-chain ids too, in the source and in the destination
	// role of its amount and count records
	disp := map[string]error{}
	for _, role := range []string{"source", "destination"} {
		for _, kind := range []string{"amount", "count"} {
			id := &core.CrossChainID{ProtocolId: core.ProtocolID(c.Protocol), CounterpartyId: c.Counterparty}
			src, dst := &core.CrossChainID{ProtocolId: core.PROTOCOL_IBC, CounterpartyId: "channel-0"}, &core.CrossChainID{ProtocolId: core.PROTOCOL_INTERNAL, CounterpartyId: "noble"}
			if role == "source" {
				src = id
			} else {
				dst = id
			}
			dg := orbitertypes.DefaultGenesisState()
			if kind == "amount" {
				dg.DispatcherGenesis.DispatchedAmounts = []dispatchertypes.DispatchedAmountEntry{{SourceId: src, DestinationId: dst, Denom: world.Uusdc,
					AmountDispatched: dispatchertypes.AmountDispatched{Incoming: sdkmath.NewInt(2), Outgoing: sdkmath.NewInt(1)}}}
			} else {
				dg.DispatcherGenesis.DispatchedCounts = []dispatchertypes.DispatchCountEntry{{SourceId: src, DestinationId: dst, Count: 3}}
			}
			disp["dispatcher genesis "+kind+" record, "+role+" role"] = dg.Validate()
		}
	}
	var dispPaths []string
	for k := range disp {
		dispPaths = append(dispPaths, k)
	}
	sort.Strings(dispPaths)
	if !canonical {
		rec.Label("paths", "non-canonical string")
		rec.Sample("paths/non-canonical", c)
		for _, k := range dispPaths {
			if disp[k] == nil {
				return fmt.Errorf("genesis validation (%s) accepts the non-canonical %s counterparty %q", k, name, c.Counterparty)
			}
		}
		switch {
		case gerr == nil:
			return fmt.Errorf("genesis validation accepts the non-canonical %s counterparty %q", name, c.Counterparty)
		case res.OK():
			return fmt.Errorf("PauseCrossChains accepts the non-canonical %s counterparty %q", name, c.Counterparty)
		case qerr == nil:
			return fmt.Errorf("IsCrossChainPaused accepts the non-canonical %s counterparty %q", name, c.Counterparty)
		}
		return nil
	}
	rec.Label("paths", "canonical string")
	rec.Sample("paths/canonical", c)
	rec.NonTrivial(fmt.Sprintf("paths|%d|%s", c.Protocol, c.Counterparty))
	for _, k := range dispPaths {
		if disp[k] != nil {
			return fmt.Errorf("canonical %s domain %q refused by genesis validation (%s): %v", name, c.Counterparty, k, disp[k])
		}
	}
	if gerr != nil || !res.OK() || qerr != nil || !q.IsPaused {
		return fmt.Errorf("canonical %s domain %q: genesis %v, pause %v, query %v paused=%v", name, c.Counterparty, gerr, res.Err, qerr, q.IsPaused)
	}
	// (3b) the same coupling when the identifier is paused as part of a BATCH, next to one that is
	// already paused and next to a repetition: whatever the message answers, if it reports success
	// the identifier is paused
	{
		other := "5"
		if c.Counterparty == other {
			other = "3"
		}
		for _, batch := range [][]string{{other, c.Counterparty}, {other, other, c.Counterparty}} {
			bctx := w.Branch()
			first, _ := kit.BuildAdmin(kit.Admin{Kind: "pause_cc", Protocol: name, Ids: []string{other}})
			if r := w.Tx(bctx, first); !r.OK() {
				return fmt.Errorf("harness: pausing (%s,%s) failed: %v", name, other, r.Err)
			}
			bmsg, _ := kit.BuildAdmin(kit.Admin{Kind: "pause_cc", Protocol: name, Ids: batch})
			if r := w.Tx(bctx, bmsg); r.OK() {
				var bq forwardertypes.QueryIsCrossChainPausedResponse
				if err := w.Query(bctx, fwdQuery+"IsCrossChainPaused", &forwardertypes.QueryIsCrossChainPausedRequest{ProtocolId: name, CounterpartyId: c.Counterparty}, &bq); err != nil || !bq.IsPaused {
					return fmt.Errorf("PauseCrossChains(%s,%q) succeeded (with %q already paused) but %q is not paused afterwards (query: %v %v)", name, batch, other, c.Counterparty, bq.IsPaused, err)
				}
			}
		}
	}
	// (3) coupling: the successful pause covers the transfers it names
	v, _ := strconv.ParseUint(c.Counterparty, 10, 32)
	var tr kit.Transfer
	if c.Protocol == kit.ProtoCCTP {
		tr = kit.Transfer{Channel: 0, Denom: world.Uusdc, Amount: "1000", Route: kit.Route{Kind: "cctp", Domain: uint32(v), MintRecipient: kit.Fill32(1)}}
	} else {
		tr = kit.Transfer{Channel: 0, Denom: world.Uusdc, Amount: "1000", Route: kit.Route{Kind: "hyp", Domain: uint32(v), TokenID: w.HypToken[world.Uusdc], Recipient: kit.Fill32(1)}}
	}
	p, err := kit.BuildPacket(w.Cdc, tr, false)
	if err != nil {
		return nil
	}
	unpaused := world.Recv(w.Branch(), w.Stack, p)
	paused := world.Recv(ctx, w.Stack, p)
	if paused.Success {
		return fmt.Errorf("PauseCrossChains(%s,[%q]) succeeded but a transfer to domain %d still passes", name, c.Counterparty, v)
	}
	// (3c) a pause accepted while the protocol was paused as a whole names the same transfers:
	// once the protocol-level pause is lifted, the identifier is still paused and still covers them
	if pres.OK() {
		umsg, _ := kit.BuildAdmin(kit.Admin{Kind: "unpause_protocol", Protocol: name})
		if r := w.Tx(pctx, umsg); !r.OK() {
			return fmt.Errorf("harness: unpausing %s failed: %v", name, r.Err)
		}
		var uq forwardertypes.QueryIsCrossChainPausedResponse
		if err := w.Query(pctx, fwdQuery+"IsCrossChainPaused", &forwardertypes.QueryIsCrossChainPausedRequest{ProtocolId: name, CounterpartyId: c.Counterparty}, &uq); err != nil || !uq.IsPaused {
			return fmt.Errorf("PauseCrossChains(%s,[%q]) succeeded while %s was paused as a whole, but after UnpauseProtocol the identifier is not paused (query: %v %v)", name, c.Counterparty, name, uq.IsPaused, err)
		}
		if out := world.Recv(pctx, w.Stack, p); out.Success {
			return fmt.Errorf("PauseCrossChains(%s,[%q]) succeeded while %s was paused as a whole, but after UnpauseProtocol a transfer to domain %d passes", name, c.Counterparty, name, v)
		}
		rec.Label("paths", "coupled probe: paused under a protocol-level pause, still covered after it is lifted")
	} else {
		return fmt.Errorf("with %s paused as a whole, PauseCrossChains refuses the canonical domain %q: %v", name, c.Counterparty, pres.Err)
	}
	if unpaused.Success {
		rec.Label("paths", "coupled probe: passes unpaused, refused paused")
	}
	return nil
}

func genC20(t *rapid.T) caseC20 {
	c := caseC20{Protocol: pick(t, "proto", idProtocols)}
	if kit.Chance(t, "proto/domainlike", 60) {
		c.Protocol = pick(t, "proto2", []int32{kit.ProtoCCTP, kit.ProtoHyp})
	}
	c.Counterparty, _ = genCounterparty(t, "cp")
	// a near-collision partner: shift the separator
	c.OtherProtocol = pick(t, "oproto", idProtocols)
	switch pick(t, "other", []string{"shift", "same", "random"}) {
	case "shift":
		full := fmt.Sprintf("%d:%s", uint32(c.Protocol), c.Counterparty)
		if i := strings.LastIndex(full, ":"); i > 0 {
			if v, err := strconv.ParseInt(full[:i], 10, 32); err == nil {
				c.OtherProtocol, c.OtherCounterparty = int32(v), full[i+1:]
			}
		}
	case "same":
		c.OtherProtocol, c.OtherCounterparty = c.Protocol, c.Counterparty
	default:
		c.OtherCounterparty, _ = genCounterparty(t, "ocp")
	}
	return c
}

func TestC20Unit(t *testing.T) {
	rec := kit.NewRecorder(t, "C20")
	rapid.Check(t, func(rt *rapid.T) {
		c := genC20(rt)
		rec.Eval()
		if err := runC20Unit(c, rec); err != nil {
			rec.Fail(rt, c, "%v", err)
		}
	})
	rec.Require("unit", "accepted", 100)
	rec.Require("unit", "refused", 100)
}

func TestC20Paths(t *testing.T) {
	w := prod(t)
	rec := kit.NewRecorder(t, "C20")
	rapid.Check(t, func(rt *rapid.T) {
		c := genC20(rt)
		c.Protocol = pick(rt, "proto3", []int32{kit.ProtoCCTP, kit.ProtoHyp})
		if kit.Chance(rt, "configured", 40) {
			if c.Protocol == kit.ProtoCCTP {
				c.Counterparty = strconv.Itoa(int(pick(rt, "cfg/cctp", world.CCTPDomains)))
			} else {
				c.Counterparty = strconv.Itoa(int(pick(rt, "cfg/hyp", world.HypDomains)))
			}
		}
		rec.Eval()
		if err := runC20Paths(w, c, rec); err != nil {
			rec.Fail(rt, c, "%v", err)
		}
	})
	rec.Require("paths", "coupled probe: passes unpaused, refused paused", 20)
	rec.Require("paths", "non-canonical string", 50)
}

func init() {
	kit.RegisterReplay("TestC20Unit", func(raw json.RawMessage) error {
		c, err := decode[caseC20](raw)
		if err != nil {
			return fmt.Errorf("harness: %w", err)
		}
		return runC20Unit(c, nil)
	})
	kit.RegisterReplay("TestC20Paths", func(raw json.RawMessage) error {
		c, err := decode[caseC20](raw)
		if err != nil {
			return fmt.Errorf("harness: %w", err)
		}
		return runC20Paths(prodW, c, nil)
	})
}
