package props

import (
	"encoding/json"
	"fmt"
	"math"
	"math/big"
	"testing"

	sdkmath "cosmossdk.io/math"
	"pgregory.net/rapid"

	orbitertypes "github.com/noble-assets/orbiter/v2/types"
	dispatchertypes "github.com/noble-assets/orbiter/v2/types/component/dispatcher"
	"github.com/noble-assets/orbiter/v2/types/core"

	"verif/harness/kit"
	"verif/harness/world"
)

// TestC12FromGenesis: "after any history" includes histories that start from an imported
// genesis. The prior totals and counters are drawn over their whole range - totals up to 2^255,
// counters up to 2^64-1 - for the very routes the history then uses, and the fold continues from
// them. Where a counter cannot hold the number the statement asks for (it is at 2^64-1), the
// counter itself is a don't-care from then on (counted as an exclusion); the totals of that route
// must go on accumulating like any other.

type priorC12 struct {
	Key   kit.StatKey `json:"key"`
	In    string      `json:"in"`
	Out   string      `json:"out"`
	Count uint64      `json:"count"`
}

type caseC12Genesis struct {
	Prior []priorC12 `json:"prior"`
	// Filler is the number of further routes with imported statistics that the history does not
	// touch: route i is (IBC channel-<2000+i>) -> (HYPERLANE domain i), denom ufoo, totals 7/5,
	// count 3. A ledger is not always smaller than one page of a listing.
	Filler  int         `json:"filler,omitempty"`
	History kit.History `json:"history"`
}

func runC12Genesis(w *world.World, c caseC12Genesis, rec *kit.Recorder) error {
	ctx := w.Branch()
	g := orbitertypes.DefaultGenesisState()
	model := kit.NewState()
	for _, p := range c.Prior {
		in, _ := new(big.Int).SetString(p.In, 10)
		out, _ := new(big.Int).SetString(p.Out, 10)
		src := core.CrossChainID{ProtocolId: core.ProtocolID(p.Key.SrcProto), CounterpartyId: p.Key.SrcCp}
		dst := core.CrossChainID{ProtocolId: core.ProtocolID(p.Key.DstProto), CounterpartyId: p.Key.DstCp}
		rk := kit.RouteKey{SrcProto: p.Key.SrcProto, SrcCp: p.Key.SrcCp, DstProto: p.Key.DstProto, DstCp: p.Key.DstCp}
		if _, dup := model.Amounts[p.Key]; dup {
			continue
		}
		g.DispatcherGenesis.DispatchedAmounts = append(g.DispatcherGenesis.DispatchedAmounts, dispatchertypes.DispatchedAmountEntry{
			SourceId: &src, DestinationId: &dst, Denom: p.Key.Denom,
			AmountDispatched: dispatchertypes.AmountDispatched{Incoming: sdkmath.NewIntFromBigInt(in), Outgoing: sdkmath.NewIntFromBigInt(out)},
		})
		model.Amounts[p.Key] = &kit.StatVal{In: in, Out: out}
		if _, has := model.Counts[rk]; !has {
			g.DispatcherGenesis.DispatchedCounts = append(g.DispatcherGenesis.DispatchedCounts, dispatchertypes.DispatchCountEntry{SourceId: &src, DestinationId: &dst, Count: p.Count})
			model.Counts[rk] = p.Count
		}
	}
	for i := 0; i < c.Filler; i++ {
		src := core.CrossChainID{ProtocolId: core.PROTOCOL_IBC, CounterpartyId: fmt.Sprintf("channel-%d", 2000+i)}
		dst := core.CrossChainID{ProtocolId: core.PROTOCOL_HYPERLANE, CounterpartyId: fmt.Sprint(i)}
		k := kit.StatKey{SrcProto: kit.ProtoIBC, SrcCp: src.CounterpartyId, DstProto: kit.ProtoHyp, DstCp: dst.CounterpartyId, Denom: world.Ufoo}
		g.DispatcherGenesis.DispatchedAmounts = append(g.DispatcherGenesis.DispatchedAmounts, dispatchertypes.DispatchedAmountEntry{
			SourceId: &src, DestinationId: &dst, Denom: world.Ufoo,
			AmountDispatched: dispatchertypes.AmountDispatched{Incoming: sdkmath.NewInt(7), Outgoing: sdkmath.NewInt(5)},
		})
		g.DispatcherGenesis.DispatchedCounts = append(g.DispatcherGenesis.DispatchedCounts, dispatchertypes.DispatchCountEntry{SourceId: &src, DestinationId: &dst, Count: 3})
		model.Amounts[k] = &kit.StatVal{In: big.NewInt(7), Out: big.NewInt(5)}
		model.Counts[kit.RouteKey{SrcProto: k.SrcProto, SrcCp: k.SrcCp, DstProto: k.DstProto, DstCp: k.DstCp}] = 3
	}
	if c.Filler > 0 {
		rec.Label("genesis", fmt.Sprintf("ledger with %s imported routes", map[bool]string{true: "more than 100", false: "up to 100"}[c.Filler > 100]))
	}
	if err := g.Validate(); err != nil {
		return fmt.Errorf("harness: generated prior statistics do not validate: %w", err)
	}
	var initErr any
	func() {
		defer func() { initErr = recover() }()
		w.App.OrbiterKeeper.InitGenesis(ctx, *g)
	}()
	if initErr != nil {
		return fmt.Errorf("harness: importing the prior statistics panicked: %v", initErr)
	}
	m := &kit.Machine{W: w, Ctx: ctx, Model: model}
	saturated := map[kit.RouteKey]bool{}
	compare := func() error {
		impl := m.Impl()
		// a counter that was asked to go beyond 2^64-1 is a don't-care: align the model with
		// whatever the implementation holds for it
		for rk := range saturated {
			if v, ok := impl.Counts[rk]; ok {
				m.Model.Counts[rk] = v
			} else {
				delete(m.Model.Counts, rk)
			}
		}
		return m.Model.CompareStats(impl)
	}
	if err := compare(); err != nil {
		return fmt.Errorf("right after the import: %w", err)
	}
	successes, onPrior, onSaturated := 0, 0, 0
	for i, s := range c.History {
		o := m.Do(s)
		if s.Packet != nil && o.BuildErr == nil {
			t := *s.Packet
			orbiter := t.RawData == nil && orbiterAddressed(t.ReceiverString())
			if orbiter && o.Out.Success && kit.Constructed(t) {
				successes++
				dp, dc := kit.Destination(t.Route)
				rk := kit.RouteKey{SrcProto: kit.ProtoIBC, SrcCp: world.NobleChannel(t.Channel), DstProto: dp, DstCp: dc}
				prior, had := m.Model.Counts[rk]
				if had {
					onPrior++
				}
				if had && prior == math.MaxUint64 {
					saturated[rk] = true
					onSaturated++
					rec.Exclude("dispatch counter already at 2^64-1: its value is a don't-care, the totals are still compared")
				}
				m.Model.RecordTransfer(world.NobleChannel(t.Channel), t.Route, t.Denom, t.AmountInt(), o.Run.Denom, o.Run.Amount)
			}
		}
		if err := compare(); err != nil {
			return fmt.Errorf("after step %d (%s): %w", i, kit.JSON(s), err)
		}
	}
	if onPrior >= 1 {
		rec.NonTrivial(kit.JSON(c))
		rec.Label("genesis", "a successful transfer on a route with imported statistics")
		rec.Sample("from-genesis", c)
	}
	if onSaturated >= 1 {
		rec.Label("genesis", "a successful transfer on a route whose counter is at 2^64-1")
	}
	if successes == 0 {
		rec.Label("genesis", "no successful transfer")
	}
	return nil
}

func TestC12FromGenesis(t *testing.T) {
	w := prod(t)
	rec := kit.NewRecorder(t, "C12")
	opt := kit.HistOpt{
		MinSteps: 2, MaxSteps: 12,
		PacketW: 90, AdminW: 5, EnvW: 5,
		Packet: func(rt *rapid.T) kit.Transfer { return genC12Packet(rt, w, rec) },
		Admin:  kit.AdminOpt{ForeignSignerPct: 10, InvalidPct: 10},
	}
	rapid.Check(t, func(rt *rapid.T) {
		c := caseC12Genesis{History: kit.GenHistory(rt, opt)}
		// prior statistics for (most of) the routes the history uses, and for a few it does not
		for i, s := range c.History {
			if s.Packet == nil || !kit.Chance(rt, fmt.Sprintf("prior/%d", i), 70) {
				continue
			}
			t := *s.Packet
			dp, dc := kit.Destination(t.Route)
			if dc == "" {
				continue
			}
			k := kit.StatKey{SrcProto: kit.ProtoIBC, SrcCp: world.NobleChannel(t.Channel), DstProto: dp, DstCp: dc, Denom: t.Denom}
			l := fmt.Sprintf("prior/%d", i)
			c.Prior = append(c.Prior, priorC12{
				Key:   k,
				In:    pick(rt, l+"/in", []string{"1", "5000", "18446744073709551615", "18446744073709551616", "57896044618658097711785492504343953926634992332820282019728792003956564819968"}),
				Out:   pick(rt, l+"/out", []string{"0", "1", "4950", "18446744073709551616"}),
				Count: pick(rt, l+"/count", []uint64{1, 5, 4294967295, 4294967296, 9223372036854775807, 9223372036854775808, math.MaxUint64 - 1, math.MaxUint64, math.MaxUint64}),
			})
		}
		if kit.Chance(rt, "filler", 15) {
			c.Filler = pick(rt, "filler/n", []int{1, 99, 100, 101, 130})
		}
		rec.Eval()
		if err := runC12Genesis(w, c, rec); err != nil {
			rec.Fail(rt, c, "%v", err)
		}
	})
	rec.Require("genesis", "a successful transfer on a route with imported statistics", 30)
	rec.Require("genesis", "a successful transfer on a route whose counter is at 2^64-1", 5)
	rec.Require("genesis", "ledger with more than 100 imported routes", 5)
}

func init() {
	kit.RegisterReplay("TestC12FromGenesis", func(raw json.RawMessage) error {
		c, err := decode[caseC12Genesis](raw)
		if err != nil {
			return fmt.Errorf("harness: %w", err)
		}
		return runC12Genesis(prodW, c, nil)
	})
}
