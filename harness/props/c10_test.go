package props

import (
	"encoding/json"
	"fmt"
	"reflect"
	"sort"
	"strings"
	"testing"

	msgv1 "cosmossdk.io/api/cosmos/msg/v1"
	gogoproto "github.com/cosmos/gogoproto/proto"
	"google.golang.org/protobuf/proto"
	"google.golang.org/protobuf/reflect/protoreflect"
	"pgregory.net/rapid"

	sdk "github.com/cosmos/cosmos-sdk/types"

	"verif/harness/kit"
	"verif/harness/world"
)

// C10 — only the authority can change module state through messages.
// The RPC surface is enumerated from the protobuf registry at run time.

type rpcInfo struct {
	Service     string
	Method      string
	Input       string // full proto name of the request message
	SignerField string // proto field name carrying the signer
}

// enumerateRPCs lists every method of every service that carries the cosmos.msg.v1.service
// option in a file of package noble.orbiter.*.
func enumerateRPCs() ([]rpcInfo, error) {
	var out []rpcInfo
	var rerr error
	gogoproto.HybridResolver.RangeFiles(func(fd protoreflect.FileDescriptor) bool {
		if !strings.HasPrefix(string(fd.Package()), "noble.orbiter") {
			return true
		}
		svcs := fd.Services()
		for i := 0; i < svcs.Len(); i++ {
			sd := svcs.Get(i)
			if !proto.HasExtension(sd.Options(), msgv1.E_Service) || !proto.GetExtension(sd.Options(), msgv1.E_Service).(bool) {
				continue
			}
			ms := sd.Methods()
			for j := 0; j < ms.Len(); j++ {
				md := ms.Get(j)
				in := md.Input()
				signers, _ := proto.GetExtension(in.Options(), msgv1.E_Signer).([]string)
				info := rpcInfo{Service: string(sd.FullName()), Method: string(md.Name()), Input: string(in.FullName())}
				if len(signers) == 1 {
					info.SignerField = signers[0]
				} else {
					rerr = fmt.Errorf("message %s declares %d signer fields", in.FullName(), len(signers))
				}
				out = append(out, info)
			}
		}
		return true
	})
	sort.Slice(out, func(i, j int) bool { return out[i].Input < out[j].Input })
	return out, rerr
}

// newMsg instantiates the Go type registered for a proto message name.
func newMsg(name string) (sdk.Msg, error) {
	t := gogoproto.MessageType(name)
	if t == nil {
		return nil, fmt.Errorf("no Go type registered for %s", name)
	}
	m, ok := reflect.New(t.Elem()).Interface().(sdk.Msg)
	if !ok {
		return nil, fmt.Errorf("%s is not an sdk.Msg", name)
	}
	return m, nil
}

// goField finds the struct field generated for a proto field name.
func goField(v reflect.Value, protoName string) (reflect.Value, bool) {
	t := v.Type()
	for i := 0; i < t.NumField(); i++ {
		tag := t.Field(i).Tag.Get("protobuf")
		for _, part := range strings.Split(tag, ",") {
			if part == "name="+protoName {
				return v.Field(i), true
			}
		}
	}
	return reflect.Value{}, false
}

type caseC10 struct {
	Input  string `json:"input"`  // proto name of the message
	Signer string `json:"signer"` // signer string
	// Body is the JSON (proto JSON) of the message body; the signer field is overwritten.
	Body json.RawMessage `json:"body"`
	// ValidBody marks hand-written bodies whose only reason to fail can be the signer.
	ValidBody bool `json:"valid_body"`
	// Effective marks bodies that take effect in the prepared state but whose meaning for the
	// authority is a don't-care (empty batches).
	Effective bool `json:"effective,omitempty"`
	// ExecMode is the execution mode of the context the handler runs under (0 check, 1 re-check,
	// 2 simulate, 3 prepare proposal, 4 process proposal, 5 vote extension, 6 verify vote
	// extension, 7 finalize): who may change state does not depend on it.
	ExecMode uint8 `json:"exec_mode,omitempty"`
}

// validBodies are hand-written valid bodies of the known messages (proto JSON without signer).
func validBodies(w *world.World) map[string][]string {
	return map[string][]string{
		"noble.orbiter.component.forwarder.v1.MsgPauseProtocol":   {`{"protocol_id":"PROTOCOL_CCTP"}`, `{"protocol_id":"PROTOCOL_IBC"}`},
		"noble.orbiter.component.forwarder.v1.MsgUnpauseProtocol": {`{"protocol_id":"PROTOCOL_HYPERLANE"}`, `{"protocol_id":"PROTOCOL_INTERNAL"}`},
		// the largest batches the messages take (100 identifiers) are valid content too
		"noble.orbiter.component.forwarder.v1.MsgPauseCrossChains": {`{"protocol_id":"PROTOCOL_CCTP","counterparty_ids":["0","3"]}`,
			`{"protocol_id":"PROTOCOL_HYPERLANE","counterparty_ids":["1"]}`, `{"protocol_id":"PROTOCOL_CCTP","counterparty_ids":` + idBatch(300, 100) + `}`,
			`{"protocol_id":"PROTOCOL_CCTP","counterparty_ids":` + idBatch(300, 99) + `}`,
			`{"protocol_id":"PROTOCOL_IBC","counterparty_ids":["channel-0","channel-18446744073709551615"]}`, `{"protocol_id":"PROTOCOL_INTERNAL","counterparty_ids":["noble"]}`,
			`{"protocol_id":"PROTOCOL_HYPERLANE","counterparty_ids":["0","4294967295"]}`},
		"noble.orbiter.component.forwarder.v1.MsgUnpauseCrossChains": {`{"protocol_id":"PROTOCOL_CCTP","counterparty_ids":["5"]}`,
			`{"protocol_id":"PROTOCOL_HYPERLANE","counterparty_ids":["7"]}`, `{"protocol_id":"PROTOCOL_CCTP","counterparty_ids":` + idBatch(100, 100) + `}`,
			`{"protocol_id":"PROTOCOL_CCTP","counterparty_ids":` + idBatch(100, 99) + `}`},
		"noble.orbiter.component.forwarder.v1.MsgReplaceDepositForBurn": {},
		"noble.orbiter.component.executor.v1.MsgPauseAction":            {`{"action_id":"ACTION_FEE"}`},
		"noble.orbiter.component.executor.v1.MsgUnpauseAction":          {`{"action_id":"ACTION_SWAP"}`},
		// every value of the parameter is valid content, the default 0 (= passthrough payloads
		// disabled, written out, left out, or with the whole member left out) included; the
		// prepared state has a non-zero limit in force
		"noble.orbiter.component.adapter.v1.MsgUpdateParams": {`{"params":{"max_passthrough_payload_size":77}}`, `{"params":{"max_passthrough_payload_size":0}}`,
			`{"params":{}}`, `{}`, `{"params":{"max_passthrough_payload_size":1}}`, `{"params":{"max_passthrough_payload_size":4294967295}}`},
	}
}

// idBatch is the JSON list of n decimal identifiers from, from+1, ...
func idBatch(from, n int) string {
	ids := make([]string, n)
	for i := range ids {
		ids[i] = fmt.Sprintf("%q", fmt.Sprint(from+i))
	}
	return "[" + strings.Join(ids, ",") + "]"
}

// effectiveBodies are bodies that DO change state when the authority sends them in c10State but
// whose meaning the statements leave open (an empty counterparty batch acts on the whole
// protocol): for a foreign signer they must fail like any other, for the authority they are a
// don't-care.
func effectiveBodies() map[string][]string {
	return map[string][]string{
		"noble.orbiter.component.forwarder.v1.MsgPauseCrossChains":   {`{"protocol_id":"PROTOCOL_CCTP","counterparty_ids":[]}`, `{"protocol_id":"PROTOCOL_IBC"}`},
		"noble.orbiter.component.forwarder.v1.MsgUnpauseCrossChains": {`{"protocol_id":"PROTOCOL_HYPERLANE","counterparty_ids":[]}`, `{"protocol_id":"PROTOCOL_INTERNAL"}`},
	}
}

// c10State is a branch in which every body above can take effect: HYPERLANE and INTERNAL are
// paused as a whole, (CCTP,5), (HYPERLANE,7) and ACTION_SWAP are paused, so that unpause messages
// have something to unpause while the pause messages still have something to pause.
func c10State(w *world.World) sdk.Context {
	ctx := w.Branch()
	for _, a := range []kit.Admin{
		{Kind: "pause_protocol", Protocol: "PROTOCOL_HYPERLANE"},
		{Kind: "pause_protocol", Protocol: "PROTOCOL_INTERNAL"},
		{Kind: "pause_cc", Protocol: "PROTOCOL_CCTP", Ids: []string{"5"}},
		{Kind: "pause_cc", Protocol: "PROTOCOL_HYPERLANE", Ids: []string{"7"}},
		{Kind: "pause_action", Action: "ACTION_SWAP"},
		{Kind: "pause_cc", Protocol: "PROTOCOL_CCTP", Ids: c10Batch},
		{Kind: "update_params", MaxPassthrough: 500},
	} {
		msg, _ := kit.BuildAdmin(a)
		w.MustTx(ctx, msg)
	}
	return ctx
}

// c10Batch: the CCTP domains 100..199, paused in the prepared state so that a full batch of 100
// can be unpaused.
var c10Batch = func() []string {
	ids := make([]string, 100)
	for i := range ids {
		ids[i] = fmt.Sprint(100 + i)
	}
	return ids
}()

func buildC10Msg(w *world.World, c caseC10, info rpcInfo) (sdk.Msg, error) {
	msg, err := newMsg(c.Input)
	if err != nil {
		return nil, err
	}
	if len(c.Body) > 0 {
		if err := w.Cdc.UnmarshalJSON(c.Body, msg); err != nil {
			return nil, fmt.Errorf("body does not decode: %w", err)
		}
	}
	f, ok := goField(reflect.ValueOf(msg).Elem(), info.SignerField)
	if !ok || f.Kind() != reflect.String {
		return nil, fmt.Errorf("signer field %q not found in %s", info.SignerField, c.Input)
	}
	f.SetString(c.Signer)
	return msg, nil
}

func runC10(w *world.World, c caseC10, rec *kit.Recorder) error {
	rpcs, err := enumerateRPCs()
	if err != nil {
		return fmt.Errorf("harness: %w", err)
	}
	var info *rpcInfo
	for i := range rpcs {
		if rpcs[i].Input == c.Input {
			info = &rpcs[i]
		}
	}
	if info == nil {
		return fmt.Errorf("harness: %s is not a registered Msg input", c.Input)
	}
	msg, err := buildC10Msg(w, c, *info)
	if err != nil {
		rec.Label("c10", "body not decodable")
		return nil
	}
	if w.App.MsgServiceRouter().Handler(msg) == nil {
		return fmt.Errorf("RPC %s/%s has no registered handler", info.Service, info.Method)
	}
	ctx := c10State(w).WithExecMode(sdk.ExecMode(c.ExecMode % 8))
	if rec != nil {
		rec.Label("exec-mode", fmt.Sprint(c.ExecMode%8))
	}
	before := w.StoreDigest(ctx)
	res := w.Tx(ctx, msg)
	after := w.StoreDigest(ctx)
	isAuthority := c.Signer == world.Authority
	if !isAuthority {
		if a, err := sdk.AccAddressFromBech32(c.Signer); err == nil && a.String() == world.Authority {
			rec.Label("c10", "another spelling of the authority (don't-care)")
			return nil
		}
	}
	class := signerClass(c.Signer)
	if isAuthority {
		rec.Label("c10", "authority/"+info.Method)
		if c.ValidBody {
			rec.NonTrivial(info.Method + "|authority|" + string(c.Body))
			if !res.OK() {
				return fmt.Errorf("%s signed by the authority with valid content failed: %v", info.Method, res.Err)
			}
			if after == before {
				return fmt.Errorf("%s signed by the authority succeeded without changing state", info.Method)
			}
		}
		return nil
	}
	rec.Label("cell", info.Method+" x "+class)
	if c.ValidBody || c.Effective {
		rec.NonTrivial(info.Method + "|" + c.Signer + "|" + string(c.Body))
		rec.Sample(info.Method, c)
	}
	if c.Effective {
		rec.Label("c10", "foreign signer with an empty-batch body that would take effect")
	}
	if res.Panic != nil {
		return fmt.Errorf("%s with signer %q panicked: %v", info.Method, c.Signer, res.Panic)
	}
	if res.OK() {
		return fmt.Errorf("%s succeeded with signer %q, who is not the authority", info.Method, c.Signer)
	}
	if after != before {
		return fmt.Errorf("%s with a foreign signer failed but changed state", info.Method)
	}
	return nil
}

var signerClasses = []string{"user", "module-orbiter", "module-gov", "empty", "whitespace", "garbage", "wrong-prefix", "truncated-authority", "authority-with-space", "authority-look-alike"}

func genSigner(t *rapid.T) string {
	switch pick(t, "signer/class", signerClasses) {
	case "user":
		return kit.PlainUser(t, "signer/user")
	case "module-orbiter":
		return world.OrbiterAddr.String()
	case "module-gov":
		return world.Addr("gov").String()
	case "empty":
		return ""
	case "whitespace":
		return pick(t, "signer/ws", []string{" ", "\t", "\n"})
	case "garbage":
		return pick(t, "signer/garbage", []string{"garbage", "authority", "noble1", "\x00", "0x00"})
	case "wrong-prefix":
		return kit.OtherPrefix(world.Authority, "cosmos")
	case "truncated-authority":
		return world.Authority[:len(world.Authority)-1]
	case "authority-look-alike":
		// strings that are NOT a bech32 encoding of the authority (mixed case is malformed
		// bech32, fold partners are other characters) but resemble it
		a := world.Authority
		i := 6 + rapid.IntRange(0, len(a)-7).Draw(t, "signer/la/pos")
		return pick(t, "signer/la", []string{
			strings.ToUpper(a[:1]) + a[1:],
			strings.ToUpper(a[:5]) + a[5:],
			a[:i] + strings.ToUpper(a[i:i+1]) + a[i+1:],
			strings.Replace(a, "k", "\u212a", 1),
			strings.Replace(a, "s", "\u017f", 1),
			a[:i] + a[i+1:] + a[i:i+1],
		})
	default:
		return pick(t, "signer/sp", []string{world.Authority + " ", " " + world.Authority, world.Authority + "\x00"})
	}
}

func signerClass(s string) string {
	switch {
	case s == "":
		return "empty"
	case strings.TrimSpace(s) == "":
		return "whitespace"
	case s == world.OrbiterAddr.String():
		return "module-orbiter"
	case s == world.Addr("gov").String():
		return "module-gov"
	case strings.HasPrefix(s, "cosmos1"):
		return "wrong-prefix"
	case strings.Contains(s, world.Authority):
		return "authority-with-space"
	case s != world.Authority && len(s) >= len(world.Authority)-1 && (strings.EqualFold(s, world.Authority) || similar(s, world.Authority)):
		return "authority-look-alike"
	case strings.HasPrefix(world.Authority, s):
		return "truncated-authority"
	default:
		if _, err := sdk.AccAddressFromBech32(s); err == nil {
			return "user"
		}
		return "garbage"
	}
}

// randomBody fills a message's fields by reflection (strings, integers, bytes, repeated strings).
func randomBody(t *rapid.T, w *world.World, name string) json.RawMessage {
	msg, err := newMsg(name)
	if err != nil {
		return nil
	}
	fill(t, reflect.ValueOf(msg).Elem(), 0)
	bz, err := w.Cdc.MarshalJSON(msg.(gogoproto.Message))
	if err != nil {
		return nil
	}
	return bz
}

func fill(t *rapid.T, v reflect.Value, depth int) {
	if depth > 3 {
		return
	}
	for i := 0; i < v.NumField(); i++ {
		f := v.Field(i)
		if !f.CanSet() || strings.HasPrefix(v.Type().Field(i).Name, "XXX_") {
			continue
		}
		label := fmt.Sprintf("fill/%d/%s", depth, v.Type().Field(i).Name)
		switch f.Kind() {
		case reflect.String:
			f.SetString(pick(t, label, []string{"", "PROTOCOL_CCTP", "PROTOCOL_HYPERLANE", "PROTOCOL_INTERNAL", "PROTOCOL_IBC", "ACTION_FEE", "ACTION_SWAP", "x", "5"}))
		case reflect.Uint32, reflect.Uint64:
			f.SetUint(uint64(rapid.IntRange(0, 100).Draw(t, label)))
		case reflect.Int32, reflect.Int64:
			f.SetInt(int64(rapid.IntRange(0, 5).Draw(t, label)))
		case reflect.Slice:
			switch f.Type().Elem().Kind() {
			case reflect.Uint8:
				f.SetBytes(rapid.SliceOfN(rapid.Byte(), 0, 40).Draw(t, label))
			case reflect.String:
				f.Set(reflect.ValueOf(rapid.SliceOfN(rapid.SampledFrom([]string{"0", "1", "5", "7", "x"}), 0, 3).Draw(t, label)))
			}
		case reflect.Struct:
			fill(t, f, depth+1)
		}
	}
}

func TestC10Authority(t *testing.T) {
	w := prod(t)
	rec := kit.NewRecorder(t, "C10")
	rpcs, err := enumerateRPCs()
	if err != nil {
		t.Fatalf("harness: %v", err)
	}
	if len(rpcs) == 0 {
		t.Fatalf("harness: no Msg RPC found in the protobuf registry")
	}
	bodies := validBodies(w)
	var names []string
	for _, r := range rpcs {
		names = append(names, r.Service+"/"+r.Method)
		if w.App.MsgServiceRouter().HandlerByTypeURL("/"+r.Input) == nil {
			rec.Note("RPC %s/%s has no registered handler", r.Service, r.Method)
		}
		if _, known := bodies[r.Input]; !known {
			rec.Note("RPC %s/%s is not among the eight known messages: signer check exercised with reflection-filled bodies only", r.Service, r.Method)
		}
	}
	rec.Note("RPC surface enumerated from the descriptors (%d): %s", len(rpcs), strings.Join(names, ", "))
	rapid.Check(t, func(rt *rapid.T) {
		r := pick(rt, "rpc", rpcs)
		c := caseC10{Input: r.Input, ExecMode: uint8(pick(rt, "exec-mode", []int{0, 0, 2, 2, 7, 7, 1, 3, 4, 5, 6}))}
		if vb := bodies[r.Input]; len(vb) > 0 && kit.Chance(rt, "valid-body", 55) {
			c.Body, c.ValidBody = json.RawMessage(pick(rt, "body", vb)), true
		} else if eb := effectiveBodies()[r.Input]; len(eb) > 0 && kit.Chance(rt, "effective-body", 40) {
			c.Body, c.Effective = json.RawMessage(pick(rt, "ebody", eb)), true
		} else {
			c.Body = randomBody(rt, w, r.Input)
		}
		if kit.Chance(rt, "authority", 12) {
			c.Signer = world.Authority
		} else {
			c.Signer = genSigner(rt)
		}
		rec.Eval()
		if err := runC10(w, c, rec); err != nil {
			rec.Fail(rt, c, "%v", err)
		}
	})
	// every RPC x signer-class cell must have been hit
	for _, r := range rpcs {
		for _, cl := range signerClasses {
			rec.Require("cell", r.Method+" x "+cl, 1)
		}
		if len(bodies[r.Input]) > 0 {
			rec.Require("c10", "authority/"+r.Method, 1)
		}
	}
}

func init() {
	kit.RegisterReplay("TestC10Authority", func(raw json.RawMessage) error {
		c, err := decode[caseC10](raw)
		if err != nil {
			return fmt.Errorf("harness: %w", err)
		}
		return runC10(prodW, c, nil)
	})
}

// similar reports whether two strings of (nearly) the same length differ in at most two bytes
// or are fold-equal after replacing the known fold partners.
func similar(a, b string) bool {
	a = strings.NewReplacer("\u212a", "k", "\u017f", "s").Replace(strings.ToLower(a))
	if len(a) != len(b) {
		return false
	}
	diff := 0
	for i := range a {
		if a[i] != b[i] {
			diff++
		}
	}
	return diff <= 2
}
