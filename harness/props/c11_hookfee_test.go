package props

import (
	"encoding/json"
	"fmt"
	"math/big"
	"testing"

	"pgregory.net/rapid"

	"verif/harness/kit"
	"verif/harness/world"
)

// C11, Hyperlane hooks that charge the sender. The environment has interchain gas paymasters
// (world.HypIGP): a payload that names one as custom hook is charged `gas_limit` base units of the
// paymaster's denomination, up to `max_fee`, by the mailbox - from the account that sends the
// remote transfer, i.e. the orbiter account. The same two-run oracle as TestC11Pairs applies:
// whether such a fee can be paid must not depend on coins that were sitting on the account.
//
// Known finding C11-hook-fee (known_findings.json): when the paymaster's denomination differs
// from the transferred one, the fee can only ever be paid out of pre-existing coins - the
// transfer is refused on an empty account and succeeds, spending them, when somebody deposited
// that denomination before. Cases of exactly that class are excluded from the generated search
// (counted), TestC11KnownHookFee reproduces the finding on every run.

type caseC11Hook struct {
	Deposits []kit.Env    `json:"deposits"`
	Transfer kit.Transfer `json:"transfer"`
	FeeDenom string       `json:"fee_denom"` // denomination of the paymaster named as custom hook
}

// hookFeeKnownClass: the paymaster charges a positive fee in a denomination other than the
// transferred one, the payload allows it, and the orbiter account holds some of that denomination
// beforehand (enough of it: the transfer succeeds on those coins; less: the refusal quotes the
// pre-existing balance in the acknowledgement - the same root cause, the attempt to pay the fee
// from coins that are not part of the transfer).
func hookFeeKnownClass(c caseC11Hook) bool {
	r := c.Transfer.Route
	fee, ok1 := new(big.Int).SetString(r.GasLimit, 10)
	max, ok2 := new(big.Int).SetString(r.MaxFeeAmount, 10)
	if !ok1 || !ok2 || fee.Sign() <= 0 {
		return false
	}
	// (a max fee in yet another denomination does not cap what the paymaster takes - the mailbox
	// compares coin sets per denomination - so only an empty max fee, or one in the paymaster's
	// denomination below the fee, keeps the hook from charging)
	if c.FeeDenom == c.Transfer.Denom || max.Sign() <= 0 || (r.MaxFeeDenom == c.FeeDenom && max.Cmp(fee) < 0) {
		return false
	}
	have := new(big.Int)
	for _, d := range c.Deposits {
		if d.Denom == c.FeeDenom {
			a, _ := new(big.Int).SetString(d.Amount, 10)
			if a != nil {
				have.Add(have, a)
			}
		}
	}
	return have.Sign() > 0
}

func runC11Hook(w *world.World, c caseC11Hook, rec *kit.Recorder) error {
	return runC11(w, caseC11{Deposits: c.Deposits, Transfer: c.Transfer}, rec)
}

func genC11Hook(rt *rapid.T, w *world.World) caseC11Hook {
	var c caseC11Hook
	denom := pick(rt, "denom", []string{world.Uusdc, world.Ufoo})
	c.FeeDenom = pick(rt, "fee-denom", world.IGPDenoms)
	tr := kit.GenTransfer(rt, w, kit.TransferOpt{
		Route:      kit.RouteOpt{EnvValid: true, Kinds: []string{"hyp"}},
		FeeClasses: []string{"plain"}, MaxActions: 1, KeepBelowLimit: true,
		Denoms: []string{denom},
	})
	fee := pick(rt, "fee", []string{"1", "7", "1000", "250000"})
	tr.Route.HookID = w.HypIGP[c.FeeDenom]
	tr.Route.GasLimit = fee
	f, _ := new(big.Int).SetString(fee, 10)
	tr.Route.MaxFeeDenom = c.FeeDenom
	switch pick(rt, "max-fee", []string{"exact", "exact", "above", "above", "below", "zero", "other-denom"}) {
	case "exact":
		tr.Route.MaxFeeAmount = f.String()
	case "above":
		tr.Route.MaxFeeAmount = new(big.Int).Add(f, big.NewInt(int64(pick(rt, "max-fee/slack", []int{1, 100, 1_000_000})))).String()
	case "below":
		tr.Route.MaxFeeAmount = new(big.Int).Sub(f, big.NewInt(1)).String()
	case "zero":
		tr.Route.MaxFeeAmount = "0"
	case "other-denom":
		tr.Route.MaxFeeAmount = f.String()
		tr.Route.MaxFeeDenom = pick(rt, "max-fee/denom", []string{world.Ufoo, world.Uusdc, "gamm/pool/1"})
	}
	c.Transfer = tr
	n := 1 + rapid.IntRange(0, 2).Draw(rt, "deposits/n")
	for i := 0; i < n; i++ {
		d := kit.Env{Kind: "deposit", User: pick(rt, fmt.Sprintf("dep/%d/user", i), kit.PlainUsers)}
		d.Denom = pick(rt, fmt.Sprintf("dep/%d/denom", i), []string{tr.Denom, tr.Denom, c.FeeDenom, c.FeeDenom, world.Ufoo, world.Uusdc})
		d.Amount = pick(rt, fmt.Sprintf("dep/%d/amount", i), []string{"1", fee, new(big.Int).Sub(f, big.NewInt(1)).String(), "1000000", tr.Amount})
		if a, ok := new(big.Int).SetString(d.Amount, 10); !ok || a.Sign() <= 0 {
			d.Amount = "3"
		}
		c.Deposits = append(c.Deposits, d)
	}
	return c
}

func TestC11HookFees(t *testing.T) {
	w := prod(t)
	rec := kit.NewRecorder(t, "C11")
	rapid.Check(t, func(rt *rapid.T) {
		c := genC11Hook(rt, w)
		rec.Eval()
		same := "fee in the transferred denomination"
		if c.FeeDenom != c.Transfer.Denom {
			same = "fee in another denomination"
		}
		if hookFeeKnownClass(c) {
			rec.Exclude("charging hook whose fee in another denomination is attempted on a pre-existing balance (known finding C11-hook-fee)")
			rec.Label("c11-hook", "excluded: known finding class")
			return
		}
		rec.Label("c11-hook", same)
		rec.NonTrivial(kit.JSON(c))
		rec.Sample("hook-fee/"+same, c)
		if err := runC11Hook(w, c, rec); err != nil {
			rec.Fail(rt, c, "%v", err)
		}
	})
	rec.Require("c11-hook", "fee in another denomination", 20)
	rec.Require("c11-hook", "fee in the transferred denomination", 20)
}

// TestC11KnownHookFee is the directed probe of the known finding C11-hook-fee: it prints a
// KNOWN-FINDING line when the finding still reproduces and is silent once it does not.
func TestC11KnownHookFee(t *testing.T) {
	w := prod(t)
	rec := kit.NewRecorder(t, "C11")
	c := caseC11Hook{
		FeeDenom: world.Ufoo,
		Deposits: []kit.Env{{Kind: "deposit", User: "carol", Denom: world.Ufoo, Amount: "1000"}},
		Transfer: kit.Transfer{
			Channel: 0, Denom: world.Uusdc, Amount: "1000000",
			Route: kit.Route{
				Kind: "hyp", Domain: world.HypDomains[0], TokenID: w.HypToken[world.Uusdc], Recipient: make([]byte, 32),
				HookID: w.HypIGP[world.Ufoo], GasLimit: "1000", MaxFeeDenom: world.Ufoo, MaxFeeAmount: "1000",
			},
		},
	}
	c.Transfer.Route.Recipient[31] = 1
	if !hookFeeKnownClass(c) {
		t.Fatalf("harness: the probe is not in the class it probes")
	}
	rec.Eval()
	rec.NonTrivial("probe:" + kit.JSON(c))
	if err := runC11Hook(w, c, nil); err != nil {
		fmt.Printf("KNOWN-FINDING: property=C11 a Hyperlane transfer whose custom hook charges a fee in a denomination other than the transferred one (max_fee in that denomination) is refused on an empty orbiter account but succeeds, paying the fee out of them, when coins of that denomination were deposited on the account before (id C11-hook-fee): %v\n", firstLines(err.Error(), 3))
		rec.Note("known finding C11-hook-fee reproduced by the directed probe")
	} else {
		rec.Note("known finding C11-hook-fee no longer reproduces")
	}
}

func init() {
	kit.RegisterReplay("TestC11HookFees", func(raw json.RawMessage) error {
		c, err := decode[caseC11Hook](raw)
		if err != nil {
			return fmt.Errorf("harness: %w", err)
		}
		return runC11Hook(prodW, c, nil)
	})
}
