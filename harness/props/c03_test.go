package props

import (
	"encoding/json"
	"fmt"
	"math"
	"math/big"
	"strings"
	"testing"

	cctptypes "github.com/circlefin/noble-cctp/x/cctp/types"
	"pgregory.net/rapid"

	sdk "github.com/cosmos/cosmos-sdk/types"
	transfertypes "github.com/cosmos/ibc-go/v8/modules/apps/transfer/types"

	orbitertypes "github.com/noble-assets/orbiter/v2/types"
	dispatchertypes "github.com/noble-assets/orbiter/v2/types/component/dispatcher"
	"github.com/noble-assets/orbiter/v2/types/core"

	"verif/harness/kit"
	"verif/harness/world"
)

// C03 — a failure at any step yields an error acknowledgement, never partial success.

// caseC03 is a payload shape; the fault positions are enumerated, not drawn.
type caseC03 struct {
	Transfer    kit.Transfer `json:"transfer"`
	Dust        string       `json:"dust,omitempty"` // pre-existing balance of the transferred denom
	Passthrough int          `json:"passthrough,omitempty"`
	// Faults, when set (replay of a shrunk failure), restricts the enumeration to one fault tuple.
	Faults []int `json:"faults,omitempty"`
	// PanicMode ("before" | "after"), with Faults = [i]: call i fails by panicking.
	PanicMode string `json:"panic_mode,omitempty"`
}

func isBridgeSite(s string) bool {
	switch s {
	case "cctp", "cctp-caller", "hyp-remote-transfer", "bank-send":
		return true
	}
	return false
}

// prepareC03 builds the base state of a shape: dust on the orbiter account, the passthrough limit.
func prepareC03(l *world.Lab, c caseC03) (sdk.Context, error) {
	w := l.W
	ctx := w.Branch()
	if c.Dust != "" {
		m := &kit.Machine{W: w, Ctx: ctx, Model: kit.NewState()}
		o := m.Do(kit.Step{Env: &kit.Env{Kind: "deposit", User: "carol", Denom: c.Transfer.Denom, Amount: c.Dust}})
		if !o.Tx.OK() {
			return ctx, fmt.Errorf("harness: deposit failed: %v", o.Tx.Err)
		}
	}
	if c.Passthrough > 0 {
		msg, _ := kit.BuildAdmin(kit.Admin{Kind: "update_params", MaxPassthrough: uint32(c.Passthrough)})
		if r := w.Tx(ctx, msg); !r.OK() {
			return ctx, fmt.Errorf("harness: update params failed: %v", r.Err)
		}
	}
	return ctx, nil
}

func runC03(l *world.Lab, c caseC03, rec *kit.Recorder) error {
	w := l.W
	base, err := prepareC03(l, c)
	if err != nil {
		return err
	}
	p, err := kit.BuildPacket(w.Cdc, c.Transfer, false)
	if err != nil {
		return fmt.Errorf("harness: %w", err)
	}
	// fault-free run
	ctx, _ := base.CacheContext()
	s := l.Begin()
	before := w.Ledger(ctx)
	out := world.Recv(ctx, l.Stack, p)
	delta := world.Diff(before, w.Ledger(ctx))
	if out.Panicked() {
		return fmt.Errorf("fault-free run panicked: %v", out.Panic)
	}
	if !out.Success {
		rec.Label("shape", "fault-free run refused (shape not enumerated)")
		return nil
	}
	sites := s.Sites()
	// success only after every fund movement of the shape completed with a nil error
	run := kit.RunActions(c.Transfer.Denom, c.Transfer.AmountInt(), c.Transfer.Actions)
	wantFeeSends, wantSwaps := 0, 0
	for _, st := range run.Steps {
		if st.Kind == "fee" {
			wantFeeSends += len(st.Credits)
		} else {
			wantSwaps++
		}
	}
	count := func(site string) int {
		n := 0
		for _, cl := range s.Calls {
			if cl.Site == site && cl.Err == nil {
				n++
			}
		}
		return n
	}
	bridges := 0
	for _, cl := range s.Calls {
		if isBridgeSite(cl.Site) && cl.Err == nil {
			bridges++
		}
	}
	dust, _ := new(big.Int).SetString("0"+c.Dust, 10)
	switch {
	case count("ics20") != 1:
		return fmt.Errorf("success, but the ICS-20 credit completed %d times (calls %v)", count("ics20"), sites)
	case dust.Sign() > 0 && count("sweep") != 1:
		return fmt.Errorf("success with a pre-existing balance, but the sweep completed %d times (calls %v)", count("sweep"), sites)
	case count("fee-send") != wantFeeSends:
		return fmt.Errorf("success, but %d fee sends completed, the payload has %d non-zero fees (calls %v)", count("fee-send"), wantFeeSends, sites)
	case count("swap") != wantSwaps:
		return fmt.Errorf("success, but %d swaps completed, the payload has %d (calls %v)", count("swap"), wantSwaps, sites)
	case bridges != 1:
		return fmt.Errorf("success, but %d bridge calls completed (calls %v)", bridges, sites)
	}
	want := kit.ExpectedDelta(w, c.Transfer, run, dust)
	if !want.Equal(delta) {
		return fmt.Errorf("fault-free run: ledger delta differs from the model\n  observed: %s\n  expected: %s", delta, want)
	}
	rec.Label("shape", fmt.Sprintf("%d fault sites", len(sites)))

	check := func(faults ...int) error {
		ctx, _ := base.CacheContext()
		fs := l.Begin(faults...)
		out := world.Recv(ctx, l.Stack, p)
		fired := 0
		for _, cl := range fs.Calls {
			if cl.Faulted {
				fired++
			}
		}
		if fired == 0 {
			// the same packet on the same state made a different sequence of downstream calls than
			// in the fault-free run a moment ago: a step was skipped this time, so its failure can
			// no longer be turned into an error acknowledgement at all
			got := fs.Sites()
			for i := 0; i < len(got) && i < len(sites) && i <= faults[0]; i++ {
				if got[i] != sites[i] {
					return fmt.Errorf("the step %d:%s of the fault-free run was SKIPPED when the same packet was executed again on the same state (calls now %v, before %v): its failure cannot yield an error acknowledgement any more", i, sites[i], got, sites)
				}
			}
			return fmt.Errorf("harness: fault %v was not reached (calls %v, fault-free calls %v)", faults, fs.Sites(), sites)
		}
		var names []string
		for _, f := range faults {
			if f < len(sites) {
				names = append(names, fmt.Sprintf("%d:%s", f, sites[f]))
			}
		}
		key := strings.Join(names, "+")
		rec.NonTrivial(kit.JSON(c.Transfer) + "|" + c.Dust + "|" + key)
		rec.Label("fault", siteClass(sites[faults[0]]))
		if len(faults) == 1 {
			rec.Sample("fault/"+siteClass(sites[faults[0]]), map[string]any{"shape": c, "fault": key, "ack": string(out.AckBytes)})
		}
		if out.Panicked() {
			return fmt.Errorf("fault at %s: panic %v", key, out.Panic)
		}
		if out.Success {
			return fmt.Errorf("fault at %s (calls reached: %v): the acknowledgement is a SUCCESS although a step failed", key, fs.Sites())
		}
		if !out.ErrorAck() {
			return fmt.Errorf("fault at %s: not an error acknowledgement: %q", key, out.AckBytes)
		}
		return nil
	}
	// a downstream call may also fail by PANICKING, before doing anything or after its effects are
	// in the state branch: the receive path may then abort (the host discards everything) or
	// return an error acknowledgement, but never report success
	checkPanic := func(i int, after bool) error {
		ctx, _ := base.CacheContext()
		fs := l.BeginPanic(i, after)
		out := world.Recv(ctx, l.Stack, p)
		if i >= len(fs.Calls) || !fs.Calls[i].Faulted {
			return fmt.Errorf("harness: panic fault %d was not reached (calls %v, fault-free calls %v)", i, fs.Sites(), sites)
		}
		when := map[bool]string{false: "before", true: "after"}[after]
		rec.NonTrivial(kit.JSON(c.Transfer) + "|" + c.Dust + "|panic-" + when + fmt.Sprintf("|%d:%s", i, sites[i]))
		rec.Label("fault", "panic "+when+" "+siteClass(sites[i]))
		if out.Panicked() {
			if _, ours := out.Panic.(world.InjectedPanic); !ours {
				return fmt.Errorf("panic fault %s the call %d:%s: the receive path panicked with something else: %v", when, i, sites[i], out.Panic)
			}
			return nil // the enclosing transaction aborts, nothing is committed
		}
		if out.Success {
			return fmt.Errorf("the call %d:%s PANICKED (%s completing; calls reached: %v) and the acknowledgement is a SUCCESS", i, sites[i], when, fs.Sites())
		}
		if !out.ErrorAck() {
			return fmt.Errorf("panic fault at %d:%s: not an error acknowledgement: %q", i, sites[i], out.AckBytes)
		}
		return nil
	}
	if c.Faults != nil && c.PanicMode != "" {
		return checkPanic(c.Faults[0], c.PanicMode == "after")
	}
	if c.Faults != nil {
		return check(c.Faults...)
	}
	for i := range sites {
		if err := check(i); err != nil {
			c.Faults = []int{i}
			return &faultErr{err, c}
		}
	}
	for i := range sites {
		for _, after := range []bool{false, true} {
			if err := checkPanic(i, after); err != nil {
				c.Faults, c.PanicMode = []int{i}, map[bool]string{false: "before", true: "after"}[after]
				return &faultErr{err, c}
			}
		}
	}
	for i := range sites {
		for j := i + 1; j < len(sites); j++ {
			if err := check(i, j); err != nil {
				c.Faults = []int{i, j}
				return &faultErr{err, c}
			}
		}
	}
	return nil
}

// faultErr carries the case narrowed to the failing fault tuple, for the replay file.
type faultErr struct {
	err error
	c   caseC03
}

func (e *faultErr) Error() string { return e.err.Error() }

func siteClass(s string) string {
	if strings.HasPrefix(s, "emit:") {
		if strings.Contains(s, "Fee") {
			return "emit fee event"
		}
		return "emit final event"
	}
	return s
}

func genC03Shape(t *rapid.T, l *world.Lab) caseC03 {
	w := l.W
	denom := pick(t, "denom", []string{world.Uusdc, world.Uusdc, world.Ufoo, world.Gamm})
	A := big.NewInt(rapid.Int64Range(1000, 900_000_000).Draw(t, "amount"))
	tr := kit.Transfer{Channel: rapid.IntRange(0, 3).Draw(t, "channel"), Denom: denom, Amount: A.String()}
	// actions: none | fee | swap | fee,swap | swap,fee
	order := pick(t, "actions", []string{"fee", "", "swap", "fee,swap", "swap,fee", "fee"})
	running := denom
	runAmt := new(big.Int).Set(A)
	for _, k := range strings.Split(order, ",") {
		switch k {
		case "fee":
			n := rapid.IntRange(0, 3).Draw(t, "fees/n")
			var fees []kit.Fee
			for i := 0; i < n; i++ {
				f := kit.Fee{Recipient: kit.PlainUser(t, fmt.Sprintf("fee/%d/rcpt", i))}
				if kit.Chance(t, fmt.Sprintf("fee/%d/fixed", i), 40) {
					f.Fixed = fmt.Sprint(rapid.IntRange(1, 100).Draw(t, fmt.Sprintf("fee/%d/amt", i)))
				} else {
					f.Bps = uint32(rapid.IntRange(1, 2000).Draw(t, fmt.Sprintf("fee/%d/bps", i)))
				}
				fees = append(fees, f)
			}
			tr.Actions = append(tr.Actions, kit.Action{Kind: "fee", Fees: fees})
			v := kit.ModelFees(runAmt, fees)
			if !v.Refuse {
				runAmt = v.Remaining
			}
		case "swap":
			tr.Actions = append(tr.Actions, kit.Action{Kind: "swap"})
			running = world.SwapDenom
			runAmt = kit.SwapOut(runAmt)
		}
	}
	tr.Route = kit.GenRoute(t, w, running, kit.RouteOpt{EnvValid: true, InternalClasses: []string{"plain"}})
	c := caseC03{Transfer: tr}
	if kit.Chance(t, "dust", 40) {
		c.Dust = pick(t, "dust/amt", []string{"1", "1000", "123456789"})
	}
	if kit.Chance(t, "passthrough", 25) {
		c.Passthrough = pick(t, "passthrough/len", []int{1, 32, 1000})
		c.Transfer.Route.Passthrough = make([]byte, c.Passthrough)
	}
	return c
}

func TestC03Faults(t *testing.T) {
	l := lab(t)
	rec := kit.NewRecorder(t, "C03")
	rapid.Check(t, func(rt *rapid.T) {
		c := genC03Shape(rt, l)
		rec.Eval()
		rec.Label("route", c.Transfer.Route.Kind)
		if err := runC03(l, c, rec); err != nil {
			if fe, ok := err.(*faultErr); ok {
				rec.Fail(rt, fe.c, "%v", err)
			}
			rec.Fail(rt, c, "%v", err)
		}
	})
	for _, f := range []string{"sweep", "ics20", "fee-send", "swap", "emit fee event", "hyp-token-query", "hyp-remote-transfer", "bank-send", "emit final event"} {
		rec.Require("fault", f, 3)
	}
}

// ---------------------------------------------------------------------------------------------
// Naturally occurring failures in the PROD world.

type caseC03Natural struct {
	Transfer kit.Transfer `json:"transfer"`
	Cause    string       `json:"cause"`
	Dust     string       `json:"dust,omitempty"`
}

var naturalCauses = []string{
	"blacklisted-fee-recipient", "blacklisted-internal-recipient", "blacklisted-orbiter", "ftf-paused", "above-burn-limit",
	"cctp-unknown-domain", "cctp-burning-paused", "hyp-unknown-domain", "hyp-unknown-token", "hyp-token-of-other-denom",
	"blocked-internal-recipient", "escrow-short", "receive-disabled", "none",
	// a step the chain has no controller for: an action (ACTION_SWAP in the application's wiring)
	// or an outgoing protocol (IBC) that is valid as an identifier, also while it is paused
	"action-without-controller", "protocol-without-controller", "paused-protocol-without-controller",
	// the bank's send switch of the denomination is off: a bank MsgSend (the internal route) is refused
	"send-disabled-denom",
	// the packet carries a coin that is not a Noble-native coin on its way back: the orbiter cannot
	// act on it, the sender must be refunded
	"non-native-coin",
	// not a failure of the transfer: the one documented exception. The statistics of the route
	// cannot be recorded (counter saturated by a valid genesis); the transfer itself must still
	// be complete.
	"stats-counter-saturated",
}

// applyCause turns a transfer that succeeds in the clean environment into one with a natural
// reason to fail, by changing the environment (on ctx) and/or the transfer.
func applyCause(w *world.World, ctx sdk.Context, c *caseC03Natural) error {
	m := &kit.Machine{W: w, Ctx: ctx, Model: kit.NewState()}
	env := func(e kit.Env) error {
		if o := m.Do(kit.Step{Env: &e}); !o.Tx.OK() {
			return fmt.Errorf("harness: env step %s failed: %v", e.Kind, o.Tx.Err)
		}
		return nil
	}
	t := &c.Transfer
	switch c.Cause {
	case "blacklisted-fee-recipient":
		t.Denom = world.Uusdc
		t.Actions = []kit.Action{{Kind: "fee", Fees: []kit.Fee{{Recipient: world.Addr("blacklisted").String(), Bps: 100}}}}
	case "blacklisted-internal-recipient":
		t.Route = kit.Route{Kind: "internal", To: world.Addr("blacklisted").String()}
	case "blacklisted-orbiter":
		return env(kit.Env{Kind: "blacklist", Target: world.OrbiterAddr.String()})
	case "ftf-paused":
		return env(kit.Env{Kind: "ftf_pause"})
	case "above-burn-limit":
		t.Route = kit.Route{Kind: "cctp", Domain: 0, MintRecipient: kit.Fill32(1)}
		t.Actions = nil
		t.Amount = fmt.Sprint(world.BurnLimit + 1)
	case "cctp-unknown-domain":
		t.Route = kit.Route{Kind: "cctp", Domain: 9, MintRecipient: kit.Fill32(1)}
	case "cctp-burning-paused":
		t.Route = kit.Route{Kind: "cctp", Domain: 0, MintRecipient: kit.Fill32(1)}
		if r := w.Tx(ctx, &cctptypes.MsgPauseBurningAndMinting{From: world.Addr("cctp-pauser").String()}); !r.OK() {
			return fmt.Errorf("harness: %v", r.Err)
		}
	case "hyp-unknown-domain":
		t.Route = kit.Route{Kind: "hyp", Domain: 3, TokenID: w.HypToken[world.Uusdc], Recipient: kit.Fill32(2)}
	case "hyp-unknown-token":
		t.Route = kit.Route{Kind: "hyp", Domain: 1, TokenID: kit.Fill32(0x77), Recipient: kit.Fill32(2)}
	case "hyp-token-of-other-denom":
		t.Route = kit.Route{Kind: "hyp", Domain: 1, TokenID: w.HypToken[world.Ufoo], Recipient: kit.Fill32(2)}
	case "blocked-internal-recipient":
		t.Route = kit.Route{Kind: "internal", To: world.DustAddr.String()}
	case "non-native-coin":
		d := []string{"uatom", "transfer/channel-99/uatom", world.ReturnDenom(t.Channel, "transfer/channel-5/uusdc")}[t.Channel%3]
		t.RawDenom = &d
	case "send-disabled-denom":
		t.Route = kit.Route{Kind: "internal", To: world.Addr("bob").String()}
		return env(kit.Env{Kind: "send_disable", Denom: t.Denom})
	case "action-without-controller":
		if len(t.Actions) > 0 && t.Channel%2 == 0 {
			t.Actions = append(t.Actions, kit.Action{Kind: "swap"})
		} else {
			t.Actions = append([]kit.Action{{Kind: "swap"}}, t.Actions...)
		}
	case "protocol-without-controller", "paused-protocol-without-controller":
		id := int32(core.PROTOCOL_IBC)
		t.Route.ProtoID = &id
		if c.Cause == "paused-protocol-without-controller" {
			msg, _ := kit.BuildAdmin(kit.Admin{Kind: "pause_protocol", Protocol: "PROTOCOL_IBC"})
			if r := w.Tx(ctx, msg); !r.OK() {
				return fmt.Errorf("harness: %v", r.Err)
			}
		}
	case "escrow-short":
		t.Amount = new(big.Int).Add(big.NewInt(world.EscrowSmall), big.NewInt(1)).String()
		t.Route = kit.Route{Kind: "internal", To: world.Addr("bob").String()}
		t.Actions = nil
	case "receive-disabled":
		w.App.TransferKeeper.SetParams(ctx, transfertypes.Params{SendEnabled: true, ReceiveEnabled: false})
	case "stats-counter-saturated":
		// a state a validated genesis can set: the dispatch counter of this route is at its maximum
		dp, dc := kit.Destination(t.Route)
		src := core.CrossChainID{ProtocolId: core.PROTOCOL_IBC, CounterpartyId: world.NobleChannel(t.Channel)}
		dst := core.CrossChainID{ProtocolId: core.ProtocolID(dp), CounterpartyId: dc}
		g := orbitertypes.DefaultGenesisState()
		g.DispatcherGenesis.DispatchedCounts = []dispatchertypes.DispatchCountEntry{{SourceId: &src, DestinationId: &dst, Count: math.MaxUint64}}
		if err := g.Validate(); err != nil {
			return fmt.Errorf("harness: %w", err)
		}
		if err := w.App.OrbiterKeeper.Dispatcher().InitGenesis(ctx, g.DispatcherGenesis); err != nil {
			return fmt.Errorf("harness: %w", err)
		}
	}
	return nil
}

func runC03Natural(w *world.World, c caseC03Natural, rec *kit.Recorder) error {
	ctx := w.Branch()
	if c.Dust != "" {
		m := &kit.Machine{W: w, Ctx: ctx, Model: kit.NewState()}
		m.Do(kit.Step{Env: &kit.Env{Kind: "deposit", User: "carol", Denom: world.Uusdc, Amount: c.Dust}})
	}
	if err := applyCause(w, ctx, &c); err != nil {
		return err
	}
	m := &kit.Machine{W: w, Ctx: ctx, Model: kit.NewState()}
	o := m.Do(kit.Step{Packet: &c.Transfer})
	if o.BuildErr != nil {
		return fmt.Errorf("harness: %w", o.BuildErr)
	}
	if o.Out.Panicked() {
		return fmt.Errorf("cause %s: panic: %v", c.Cause, o.Out.Panic)
	}
	if o.Out.Success {
		rec.Label("cause/"+c.Cause, "success")
		// the causes the statement lists make a step of THIS transfer impossible to complete
		// (a recipient the bank or the token factory must refuse, a bridge that cannot take the
		// request, coins that are not there): a success acknowledgement means the refusal was lost
		// or a protection was bypassed
		strict := false
		switch c.Cause {
		case "blocked-internal-recipient", "above-burn-limit", "cctp-unknown-domain", "cctp-burning-paused",
			"hyp-unknown-domain", "hyp-unknown-token", "escrow-short", "receive-disabled",
			"action-without-controller", "protocol-without-controller", "paused-protocol-without-controller", "send-disabled-denom", "non-native-coin":
			strict = true
		case "hyp-token-of-other-denom":
			strict = c.Transfer.Denom != world.Ufoo // the token named is ufoo's own
		case "ftf-paused", "blacklisted-internal-recipient", "blacklisted-orbiter":
			strict = c.Transfer.Denom == world.Uusdc // the token factory governs uusdc only
		case "blacklisted-fee-recipient":
			// only when the fee does not round to zero: nothing is sent to a recipient owed nothing
			strict = c.Transfer.Denom == world.Uusdc && len(c.Transfer.Actions) == 1 &&
				len(kit.ModelFees(c.Transfer.AmountInt(), c.Transfer.Actions[0].Fees).Credits) > 0
		}
		if strict {
			return fmt.Errorf("cause %s: the transfer cannot complete in this environment, yet the acknowledgement is a SUCCESS (ledger delta %s)", c.Cause, o.Delta)
		}
		// a success acknowledgement is legitimate only if every fund movement completed:
		// the whole-ledger delta is exactly the model's
		if err := checkC02Step(w, o, nil); err != nil {
			return fmt.Errorf("cause %s: success acknowledgement without the complete set of fund movements: %w", c.Cause, err)
		}
		return nil
	}
	rec.Label("cause/"+c.Cause, "error-ack")
	rec.NonTrivial(kit.JSON(c))
	rec.Sample("natural/"+c.Cause, map[string]any{"case": c, "ack": string(o.Out.AckBytes)})
	if !o.Out.ErrorAck() {
		return fmt.Errorf("cause %s: not an error acknowledgement: %q", c.Cause, o.Out.AckBytes)
	}
	if len(o.Delta) != 0 {
		return fmt.Errorf("cause %s: error acknowledgement with a ledger delta %s", c.Cause, o.Delta)
	}
	return nil
}

func TestC03Natural(t *testing.T) {
	w := prod(t)
	rec := kit.NewRecorder(t, "C03")
	rapid.Check(t, func(rt *rapid.T) {
		tr := kit.GenTransfer(rt, w, kit.TransferOpt{
			Route: kit.RouteOpt{EnvValid: true, InternalClasses: []string{"plain"}}, MaxActions: 1, KeepBelowLimit: true,
			Denoms: []string{world.Uusdc},
		})
		c := caseC03Natural{Transfer: tr, Cause: pick(rt, "cause", naturalCauses)}
		if kit.Chance(rt, "dust", 30) {
			c.Dust = "17"
		}
		rec.Eval()
		if err := runC03Natural(w, c, rec); err != nil {
			rec.Fail(rt, c, "%v", err)
		}
	})
	for _, cause := range naturalCauses {
		if cause == "none" || cause == "stats-counter-saturated" {
			rec.Require("cause/"+cause, "success", 5)
			continue
		}
		rec.Require("cause/"+cause, "error-ack", 3)
	}
}

func init() {
	kit.RegisterReplay("TestC03Faults", func(raw json.RawMessage) error {
		c, err := decode[caseC03](raw)
		if err != nil {
			return fmt.Errorf("harness: %w", err)
		}
		if labW == nil {
			if labW, labErr = world.NewLab(prodW); labErr != nil {
				return fmt.Errorf("harness: %w", labErr)
			}
		}
		return runC03(labW, c, nil)
	})
	kit.RegisterReplay("TestC03Natural", func(raw json.RawMessage) error {
		c, err := decode[caseC03Natural](raw)
		if err != nil {
			return fmt.Errorf("harness: %w", err)
		}
		return runC03Natural(prodW, c, nil)
	})
}
