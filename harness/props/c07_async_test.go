package props

import (
	"bytes"
	"encoding/json"
	"fmt"
	"testing"

	sdk "github.com/cosmos/cosmos-sdk/types"
	channeltypes "github.com/cosmos/ibc-go/v8/modules/core/04-channel/types"
	porttypes "github.com/cosmos/ibc-go/v8/modules/core/05-port/types"
	ibcexported "github.com/cosmos/ibc-go/v8/modules/core/exported"
	"pgregory.net/rapid"

	"github.com/noble-assets/orbiter/v2/entrypoint"

	"verif/harness/kit"
	"verif/harness/world"
)

// C07 over OTHER wrapped applications. The middleware may sit on top of any IBC application, not
// only the plain transfer module: one that acknowledges asynchronously (returns a nil
// acknowledgement from OnRecvPacket, as packet-forward style middleware does), one that answers
// with its own acknowledgement type, one that panics. For traffic not addressed to the orbiter the
// middleware must hand the packet down and hand whatever comes back up, unchanged.

type stubAck struct{ ok bool }

func (a stubAck) Success() bool           { return a.ok }
func (a stubAck) Acknowledgement() []byte { return []byte(fmt.Sprintf(`{"stub":%v}`, a.ok)) }

// stubApp embeds a real application for every callback but OnRecvPacket.
type stubApp struct {
	porttypes.IBCModule
	mode  string
	calls *int
}

func (s stubApp) OnRecvPacket(ctx sdk.Context, p channeltypes.Packet, r sdk.AccAddress) ibcexported.Acknowledgement {
	*s.calls++
	switch s.mode {
	case "async":
		return nil
	case "own-success":
		return stubAck{true}
	case "own-error":
		return stubAck{false}
	case "panic":
		panic("stub application panics")
	}
	return s.IBCModule.OnRecvPacket(ctx, p, r)
}

type caseC07Async struct {
	Mode     string       `json:"mode"`
	Transfer kit.Transfer `json:"transfer"`
}

func runC07Async(w *world.World, c caseC07Async, rec *kit.Recorder) error {
	p, err := kit.BuildPacket(w.Cdc, c.Transfer, false)
	if err != nil {
		rec.Label("async", "skipped: unserialisable")
		return nil
	}
	if orbiterAddressedData(w, p.Data) {
		rec.Label("async", "skipped: addressed to the orbiter account")
		return nil
	}
	run := func(withMiddleware bool) (out world.Outcome, calls int, digest string) {
		var app porttypes.IBCModule = stubApp{IBCModule: w.Ref, mode: c.Mode, calls: &calls}
		if withMiddleware {
			app = entrypoint.NewIBCMiddleware(app, w.App.IBCKeeper.ChannelKeeper, w.App.OrbiterKeeper.Adapter())
		}
		ctx := w.Branch()
		out = world.Recv(ctx, app, p)
		return out, calls, w.StoreDigest(ctx)
	}
	a, ca, da := run(true)
	b, cb, db := run(false)
	rec.Label("async", "wrapped application: "+c.Mode)
	rec.NonTrivial(kit.JSON(c))
	rec.Sample("async/"+c.Mode, c)
	switch {
	case a.Panicked() != b.Panicked():
		return fmt.Errorf("wrapped application %q: panic differs: with the middleware %v, without %v", c.Mode, a.Panic, b.Panic)
	case (a.Ack == nil) != (b.Ack == nil):
		return fmt.Errorf("wrapped application %q: with the middleware the acknowledgement is nil=%v, without nil=%v", c.Mode, a.Ack == nil, b.Ack == nil)
	case !bytes.Equal(a.AckBytes, b.AckBytes) || a.Success != b.Success:
		return fmt.Errorf("wrapped application %q: acknowledgement differs: %q vs %q", c.Mode, a.AckBytes, b.AckBytes)
	case ca != cb:
		return fmt.Errorf("wrapped application %q: called %d times with the middleware, %d without", c.Mode, ca, cb)
	case da != db:
		return fmt.Errorf("wrapped application %q: state differs with and without the middleware", c.Mode)
	case world.EventsDigest(a.Events) != world.EventsDigest(b.Events):
		return fmt.Errorf("wrapped application %q: events differ with and without the middleware", c.Mode)
	}
	return nil
}

// orbiterAddressedData: what the ICS-20 codec reads as the receiver decodes to the orbiter account.
func orbiterAddressedData(w *world.World, data []byte) bool {
	var d struct {
		Receiver string `json:"receiver"`
	}
	if err := json.Unmarshal(data, &d); err != nil {
		return false
	}
	return orbiterAddressed(d.Receiver)
}

func TestC07OtherApplications(t *testing.T) {
	w := prod(t)
	rec := kit.NewRecorder(t, "C07")
	rapid.Check(t, func(rt *rapid.T) {
		c := caseC07Async{Mode: pick(rt, "mode", []string{"async", "async", "own-success", "own-error", "panic", "transfer"})}
		c.Transfer = genBroadTransfer(rt, w)
		c.Transfer.Receiver = genForeignReceiver(rt)
		switch pick(rt, "data", []string{"orbiter-memo", "no-memo", "bytes", "json"}) {
		case "no-memo":
			m := ""
			c.Transfer.RawMemo = &m
		case "bytes":
			c.Transfer.RawData = rapid.SliceOfN(rapid.Byte(), 0, 100).Draw(rt, "bytes")
		case "json":
			c.Transfer.RawData = []byte(pick(rt, "json", []string{`{}`, `null`, `{"denom":"uusdc","amount":"1","sender":"a","receiver":"b"}`}))
		}
		rec.Eval()
		if err := runC07Async(w, c, rec); err != nil {
			rec.Fail(rt, c, "%v", err)
		}
	})
	rec.Require("async", "wrapped application: async", 30)
}

func init() {
	kit.RegisterReplay("TestC07OtherApplications", func(raw json.RawMessage) error {
		c, err := decode[caseC07Async](raw)
		if err != nil {
			return fmt.Errorf("harness: %w", err)
		}
		return runC07Async(prodW, c, nil)
	})
}
