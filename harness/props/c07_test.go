package props

import (
	"bytes"
	"encoding/json"
	"fmt"
	"strings"
	"testing"

	"pgregory.net/rapid"

	sdk "github.com/cosmos/cosmos-sdk/types"
	capabilitytypes "github.com/cosmos/ibc-go/modules/capability/types"
	transfertypes "github.com/cosmos/ibc-go/v8/modules/apps/transfer/types"
	clienttypes "github.com/cosmos/ibc-go/v8/modules/core/02-client/types"
	channeltypes "github.com/cosmos/ibc-go/v8/modules/core/04-channel/types"
	porttypes "github.com/cosmos/ibc-go/v8/modules/core/05-port/types"
	ibcexported "github.com/cosmos/ibc-go/v8/modules/core/exported"

	"github.com/noble-assets/orbiter/v2/entrypoint"

	"verif/harness/kit"
	"verif/harness/world"
)

// C07 — traffic not addressed to the orbiter is handled as if the middleware were absent.

type caseC07 struct {
	Prefix   kit.History  `json:"prefix,omitempty"` // brings orbiter into some pause/parameter/statistics/dust state
	Transfer kit.Transfer `json:"transfer"`
	// Callback: "recv" | "ack-success" | "ack-error" | "timeout"
	Callback string `json:"callback"`
	// Spelling lists the JSON spelling variants applied to raw packet data (informational).
	Spelling []string `json:"spelling,omitempty"`
}

func genForeignReceiver(t *rapid.T) string {
	switch pick(t, "rcv/class", []string{"user", "user", "user", "module-warp", "dust", "blocked-auth", "garbage", "empty", "other-prefix", "blacklisted", "truncated-orbiter", "padded-orbiter"}) {
	case "user":
		return kit.PlainUser(t, "rcv/user")
	case "module-warp":
		return world.WarpAddr.String()
	case "dust":
		return world.DustAddr.String()
	case "blocked-auth":
		return world.Addr("x").String()
	case "garbage":
		return pick(t, "rcv/garbage", []string{"garbage", "noble1", "0x1234", "\x00", "noble1qqqqqqqqqqqqqqqqqqqqqqqqqqqqqqqqqqqqqq"})
	case "empty":
		return " "
	case "other-prefix":
		return kit.OtherPrefix(world.OrbiterAddr.String(), "cosmos")
	case "blacklisted":
		return world.Addr("blacklisted").String()
	case "truncated-orbiter":
		o := world.OrbiterAddr.String()
		return o[:len(o)-1]
	default:
		return world.OrbiterAddr.String() + " "
	}
}

func genC07(t *rapid.T, w *world.World) caseC07 {
	c := caseC07{Callback: pick(t, "callback", []string{"recv", "recv", "recv", "recv", "ack-success", "ack-error", "timeout"})}
	tr := genBroadTransfer(t, w)
	tr.Receiver = genForeignReceiver(t)
	switch pick(t, "data", []string{"orbiter-memo", "orbiter-memo", "no-memo", "other-memo", "sender-source", "bad-amount", "bad-denom", "bytes", "json", "spelling", "spelling", "spelling", "large"}) {
	case "large":
		// packets at and beyond the sizes other layers impose: memos up to and above ICS-20's
		// 32768-byte send-side limit, memos that double in size when escaped into the packet data
		// (JSON inside JSON), long denominations; whatever the wrapped application makes of them,
		// the middleware makes the same
		n := pick(t, "large/len", []int{9000, 18000, 30000, 32768, 32769, 70000})
		var m string
		switch pick(t, "large/shape", []string{"plain", "escaped-json", "escaped-json"}) {
		case "plain":
			m = strings.Repeat("a", n)
		default:
			unit := `{"wasm":{"contract":"c","msg":{"k":"v"}}},`
			m = `{"forward":{"next":"` + strings.Repeat("\\"+`"`, 4) + `","list":[` + strings.Repeat(unit, n/len(unit)) + `{}]}}`
		}
		tr.RawMemo = &m
		if kit.Chance(t, "large/denom", 30) {
			d := world.ReturnDenom(tr.Channel, "") + strings.Repeat("x", pick(t, "large/denomlen", []int{100, 128, 5000}))
			tr.RawDenom = &d
		}
	case "spelling":
		// the five members written as text with spelling variants on which JSON decoders disagree;
		// whether such a packet is addressed to the orbiter account is what the ICS-20 codec reads
		// (runC07 asks it), so the orbiter account appears here as a value on purpose
		f := kit.PacketFields{Denom: world.ReturnDenom(tr.Channel, tr.Denom), Amount: tr.Amount, Sender: world.ForeignSender, Receiver: tr.Receiver}
		alt := world.OrbiterAddr.String()
		if kit.Chance(t, "spelling/orbiter-first", 40) {
			f.Receiver, alt = alt, f.Receiver
		}
		if kit.Chance(t, "spelling/memo", 70) {
			if m, err := kit.BuildMemo(w.Cdc, tr, false); err == nil {
				f.Memo = m
			}
		}
		text, applied := kit.SpellPacketData(t, "spelling", f, alt)
		tr.RawData = []byte(text)
		c.Spelling = applied
	case "orbiter-memo":
		// a complete valid orbiter payload in a packet for someone else
	case "no-memo":
		m := ""
		tr.RawMemo = &m
	case "other-memo":
		m := pick(t, "memo", []string{`{"forward":{"receiver":"x","port":"transfer","channel":"channel-1"}}`, `{"wasm":{}}`, "hello", `{"orbiter":null}`})
		tr.RawMemo = &m
	case "sender-source":
		d := pick(t, "ssdenom", []string{"uatom", "transfer/channel-99/uatom", "uusdc", "ibc/ABC"})
		tr.RawDenom = &d
	case "bad-amount":
		a := pick(t, "amount", hostileAmounts)
		tr.RawAmount = &a
	case "bad-denom":
		d := world.ReturnDenom(tr.Channel, "") + pick(t, "denom", hostileDenomTails)
		tr.RawDenom = &d
	case "bytes":
		tr.RawData = rapid.SliceOfN(rapid.Byte(), 0, 200).Draw(t, "bytes")
	case "json":
		tr.RawData = []byte(pick(t, "json", []string{`{}`, `null`, `[]`, `{"denom":"x"}`, `{"receiver":1}`, `{"denom":"uusdc","amount":"1","sender":"a","receiver":"b"}`, `"` + world.OrbiterAddr.String() + `"`}))
	}
	if kit.Chance(t, "ids", 15) {
		// the source channel is the COUNTERPARTY's identifier: any ICS-24 identifier (8-64 characters
		// of the allowed set), not only channel-N
		v := pick(t, "srcchan", []string{"channel-0", "channel-123", "channel-7", "channel-4294967296", "channel07", "ibcchannel-07", "ChannelToNoble",
			"connection-0.channel-3", "channel-007", "a-channel-identifier-of-forty-characters"})
		tr.SrcChannel = &v
	}
	if kit.Chance(t, "dstchan", 20) {
		// any valid Noble-side channel identifier, not only the four the harness funds: the
		// sequence is a 64-bit number
		v := pick(t, "dstchanv", []string{"channel-4", "channel-100", "channel-4294967295", "channel-4294967296", "channel-9223372036854775808", "channel-18446744073709551615"})
		tr.DstChannel = &v
	}
	if kit.Chance(t, "port", 10) {
		v := pick(t, "srcport", []string{"transfer", "icahost", "wasm.contract"})
		tr.SrcPort = &v
	}
	if c.Callback != "recv" && kit.Chance(t, "refundable", 75) {
		// a packet that Noble itself sent: Noble-side sender, Noble-native denom without prefix
		// (or a voucher path), so that the refund path does real work
		tr.Sender = kit.PlainUser(t, "sender")
		if tr.RawDenom == nil {
			d := tr.Denom
			tr.RawDenom = &d
		}
		if tr.Denom == world.Uhuge {
			a := "12345"
			tr.RawAmount = &a
		}
	}
	c.Transfer = tr
	if kit.Chance(t, "prefix", 50) {
		c.Prefix = kit.GenHistory(t, kit.HistOpt{
			MinSteps: 1, MaxSteps: 6, PacketW: 40, AdminW: 40, EnvW: 20,
			Packet: func(t *rapid.T) kit.Transfer { return genC08Probe(t, w) },
			Admin:  kit.AdminOpt{ForeignSignerPct: 5, InvalidPct: 5},
		})
	}
	return c
}

func runC07(w *world.World, c caseC07, rec *kit.Recorder) error {
	t := c.Transfer
	if t.RawData == nil && orbiterAddressed(t.ReceiverString()) {
		return fmt.Errorf("harness: case is addressed to the orbiter account (outside the property's domain)")
	}
	if t.RawData != nil {
		// raw packet data: the receiver is whatever the ICS-20 application's own codec reads
		var ref transfertypes.FungibleTokenPacketData
		if err := transfertypes.ModuleCdc.UnmarshalJSON(t.RawData, &ref); err == nil && orbiterAddressed(ref.Receiver) {
			rec.Label("raw", "read by ICS-20 as addressed to the orbiter account (outside the domain)")
			return nil
		} else if err != nil {
			rec.Label("raw", "not ICS-20 data for the application")
		} else {
			rec.Label("raw", "ICS-20 data for another receiver")
		}
		if len(c.Spelling) > 0 {
			rec.NonTrivial(fmt.Sprintf("%s|%x", c.Callback, t.RawData))
			if bytes.Contains(t.RawData, []byte(world.OrbiterAddr.String())) {
				rec.Label("raw", "spelling variant mentioning the orbiter account, in the domain")
				rec.Sample("spelling-with-orbiter-account", c)
			}
		}
	}
	m := kit.NewMachine(w)
	for _, s := range c.Prefix {
		m.Do(s)
	}
	p, err := kit.BuildPacket(w.Cdc, t, false)
	if err != nil {
		rec.Label("c07", "unserialisable")
		return nil
	}
	if c.Callback != "recv" {
		// acknowledgement/timeout of a packet that was sent FROM Noble: source is the Noble side
		p.SourcePort, p.DestinationPort = transfertypes.PortID, world.CounterpartyPort
		p.SourceChannel, p.DestinationChannel = world.NobleChannel(t.Channel), world.CounterpartyChannel(t.Channel)
	}
	ctxA, _ := m.Ctx.CacheContext()
	ctxB, _ := m.Ctx.CacheContext()
	ctxA = ctxA.WithEventManager(sdk.NewEventManager())
	ctxB = ctxB.WithEventManager(sdk.NewEventManager())
	type result struct {
		ack    []byte
		ok     bool
		err    string
		panic  string
		events string
		stores map[string]string
	}
	orbBefore := w.StoreDigests(m.Ctx)["orbiter"]
	ledgerBefore := w.Ledger(m.Ctx)
	run := func(ctx sdk.Context, stack porttypes.IBCModule) (r result) {
		defer func() {
			if x := recover(); x != nil {
				r.panic = fmt.Sprint(x)
			}
			r.events = world.EventsDigest(ctx.EventManager().ABCIEvents())
			r.stores = w.StoreDigests(ctx)
		}()
		switch c.Callback {
		case "recv":
			ack := stack.OnRecvPacket(ctx, p, world.Relayer)
			if ack != nil {
				r.ack, r.ok = ack.Acknowledgement(), ack.Success()
			}
		case "ack-success":
			ack := channeltypes.NewResultAcknowledgement([]byte{1})
			if err := stack.OnAcknowledgementPacket(ctx, p, ack.Acknowledgement(), world.Relayer); err != nil {
				r.err = err.Error()
			}
		case "ack-error":
			ack := channeltypes.NewErrorAcknowledgement(fmt.Errorf("x"))
			if err := stack.OnAcknowledgementPacket(ctx, p, ack.Acknowledgement(), world.Relayer); err != nil {
				r.err = err.Error()
			}
		case "timeout":
			if err := stack.OnTimeoutPacket(ctx, p, world.Relayer); err != nil {
				r.err = err.Error()
			}
		}
		return r
	}
	a := run(ctxA, w.Stack)
	b := run(ctxB, w.Ref)
	// The reference is run a second time: where the wrapped application is not deterministic
	// itself (ibc-go prints a pointer value into the error attribute of its event for a
	// non-positive amount) the corresponding comparison says nothing about the middleware.
	ctxB2, _ := m.Ctx.CacheContext()
	b2 := run(ctxB2.WithEventManager(sdk.NewEventManager()), w.Ref)
	refEventsStable := b.events == b2.events
	if !bytes.Equal(b.ack, b2.ack) || b.err != b2.err || b.panic != b2.panic {
		// the wrapped application's own answer is not a function of the packet: no reference
		rec.Label("c07", "reference result not deterministic (case excluded)")
		rec.Exclude("case skipped: the wrapped ICS-20 application's own acknowledgement or error differs between two runs")
		return nil
	}
	if !refEventsStable {
		rec.Label("c07", "reference events not deterministic (excluded from the event comparison)")
		rec.Exclude("event comparison skipped: the wrapped ICS-20 application's own events differ between two runs")
	}
	valid := false
	if t.RawData == nil && t.RawDenom == nil && t.RawAmount == nil {
		valid = true
	}
	hasOrbiterMemo := t.RawMemo == nil && t.RawData == nil
	if valid || hasOrbiterMemo {
		rec.NonTrivial(fmt.Sprintf("%s|%x", c.Callback, p.Data))
	}
	rec.Label("callback", c.Callback)
	switch {
	case a.panic != "" || b.panic != "":
		rec.Label("c07", "panic in the wrapped application (same on both)")
	case c.Callback == "recv" && a.ok:
		rec.Label("c07", "recv success")
	case c.Callback == "recv":
		rec.Label("c07", "recv error ack")
	case a.err == "":
		rec.Label("c07", c.Callback+" ok")
	default:
		rec.Label("c07", c.Callback+" error")
	}
	if hasOrbiterMemo && c.Callback == "recv" {
		rec.Label("memo", "complete orbiter payload for another receiver")
		rec.Sample("orbiter-memo-for-other-receiver", t)
	}
	if a.panic != b.panic {
		return fmt.Errorf("panic differs: with the middleware %q, without %q", a.panic, b.panic)
	}
	if !bytes.Equal(a.ack, b.ack) || a.ok != b.ok {
		return fmt.Errorf("acknowledgement differs: with the middleware %s, without %s", a.ack, b.ack)
	}
	if a.err != b.err {
		return fmt.Errorf("callback error differs: with the middleware %q, without %q", a.err, b.err)
	}
	if refEventsStable && a.events != b.events {
		return fmt.Errorf("emitted events differ between the stack with and without the orbiter middleware")
	}
	if d := world.DiffStores(a.stores, b.stores); len(d) != 0 {
		return fmt.Errorf("state changes differ in stores %v", d)
	}
	if a.stores["orbiter"] != orbBefore {
		return fmt.Errorf("the orbiter store changed while handling traffic for another receiver")
	}
	after := w.Ledger(ctxA)
	for _, addr := range []string{world.OrbiterAddr.String(), world.DustAddr.String()} {
		for k, v := range after {
			if strings.HasPrefix(k, addr+"|") && v.Cmp(ledgerBefore.Get(addr, k[len(addr)+1:])) != 0 {
				return fmt.Errorf("orbiter account balance %s changed", k)
			}
		}
	}
	return nil
}

func TestC07Differential(t *testing.T) {
	w := prod(t)
	rec := kit.NewRecorder(t, "C07")
	rapid.Check(t, func(rt *rapid.T) {
		c := genC07(rt, w)
		rec.Eval()
		if err := runC07(w, c, rec); err != nil {
			rec.Fail(rt, c, "%v", err)
		}
	})
	rec.Require("c07", "recv success", 50)
	rec.Require("memo", "complete orbiter payload for another receiver", 50)
}

// ---------------------------------------------------------------------------------------------
// Send path: SendPacket / WriteAcknowledgement / GetAppVersion reach the ICS-4 wrapper unchanged.

type recordingICS4 struct {
	calls []string
}

func (r *recordingICS4) SendPacket(ctx sdk.Context, chanCap *capabilitytypes.Capability, sourcePort, sourceChannel string,
	timeoutHeight clienttypes.Height, timeoutTimestamp uint64, data []byte) (uint64, error) {
	r.calls = append(r.calls, fmt.Sprintf("SendPacket %v %s %s %v %d %x", chanCap, sourcePort, sourceChannel, timeoutHeight, timeoutTimestamp, data))
	return uint64(len(data)) + 7, nil
}

func (r *recordingICS4) WriteAcknowledgement(ctx sdk.Context, chanCap *capabilitytypes.Capability, packet ibcexported.PacketI, ack ibcexported.Acknowledgement) error {
	r.calls = append(r.calls, fmt.Sprintf("WriteAcknowledgement %v %v %x", chanCap, packet, ack.Acknowledgement()))
	return fmt.Errorf("ics4 says %d", len(ack.Acknowledgement()))
}

func (r *recordingICS4) GetAppVersion(ctx sdk.Context, portID, channelID string) (string, bool) {
	r.calls = append(r.calls, "GetAppVersion "+portID+" "+channelID)
	return "v-" + portID + "-" + channelID, len(channelID)%2 == 0
}

type caseC07Send struct {
	Port, Channel string
	Data          []byte
	Timeout       uint64
	Ack           []byte
}

func runC07Send(w *world.World, c caseC07Send, rec *kit.Recorder) error {
	direct, wrapped := &recordingICS4{}, &recordingICS4{}
	mw := entrypoint.NewIBCMiddleware(w.Ref, wrapped, w.App.OrbiterKeeper.Adapter())
	ctx := w.Branch()
	capb := &capabilitytypes.Capability{Index: c.Timeout % 17}
	h := clienttypes.NewHeight(1, c.Timeout)
	s1, e1 := direct.SendPacket(ctx, capb, c.Port, c.Channel, h, c.Timeout, c.Data)
	s2, e2 := mw.SendPacket(ctx, capb, c.Port, c.Channel, h, c.Timeout, c.Data)
	if s1 != s2 || fmt.Sprint(e1) != fmt.Sprint(e2) {
		return fmt.Errorf("SendPacket result differs: %d/%v vs %d/%v", s1, e1, s2, e2)
	}
	pkt := world.Packet(0, 1, c.Data)
	ack := channeltypes.NewResultAcknowledgement(c.Ack)
	e1 = direct.WriteAcknowledgement(ctx, capb, pkt, ack)
	e2 = mw.WriteAcknowledgement(ctx, capb, pkt, ack)
	if fmt.Sprint(e1) != fmt.Sprint(e2) {
		return fmt.Errorf("WriteAcknowledgement result differs: %v vs %v", e1, e2)
	}
	v1, ok1 := direct.GetAppVersion(ctx, c.Port, c.Channel)
	v2, ok2 := mw.GetAppVersion(ctx, c.Port, c.Channel)
	if v1 != v2 || ok1 != ok2 {
		return fmt.Errorf("GetAppVersion differs")
	}
	if strings.Join(direct.calls, "\n") != strings.Join(wrapped.calls, "\n") {
		return fmt.Errorf("the ICS-4 wrapper below the middleware saw different calls:\n%v\n%v", direct.calls, wrapped.calls)
	}
	rec.NonTrivial(kit.JSON(c))
	rec.Label("send", "passed through")
	return nil
}

func TestC07SendPath(t *testing.T) {
	w := prod(t)
	rec := kit.NewRecorder(t, "C07")
	rapid.Check(t, func(rt *rapid.T) {
		c := caseC07Send{
			Port:    pick(rt, "port", []string{"transfer", "icahost", ""}),
			Channel: pick(rt, "channel", []string{"channel-0", "channel-12", "x"}),
			Data:    rapid.SliceOfN(rapid.Byte(), 0, 100).Draw(rt, "data"),
			Timeout: rapid.Uint64().Draw(rt, "timeout"),
			Ack:     rapid.SliceOfN(rapid.Byte(), 1, 40).Draw(rt, "ack"),
		}
		rec.Eval()
		if err := runC07Send(w, c, rec); err != nil {
			rec.Fail(rt, c, "%v", err)
		}
	})
}

func init() {
	kit.RegisterReplay("TestC07Differential", func(raw json.RawMessage) error {
		c, err := decode[caseC07](raw)
		if err != nil {
			return fmt.Errorf("harness: %w", err)
		}
		return runC07(prodW, c, nil)
	})
	kit.RegisterReplay("TestC07SendPath", func(raw json.RawMessage) error {
		c, err := decode[caseC07Send](raw)
		if err != nil {
			return fmt.Errorf("harness: %w", err)
		}
		return runC07Send(prodW, c, nil)
	})
}
