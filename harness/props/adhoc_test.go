package props

import (
	"os"
	"testing"

	"verif/harness/kit"
	"verif/harness/world"
)

// TestAdhoc prints the outcome of one replay file's packet (development aid).
func TestAdhoc(t *testing.T) {
	path := os.Getenv("VERIF_ADHOC")
	if path == "" {
		t.Skip()
	}
	w := prod(t)
	bz, _ := os.ReadFile(path)
	doc, _ := decode[kit.ReplayDoc](bz)
	c, err := decode[caseC14](doc.Case)
	if err != nil {
		t.Fatal(err)
	}
	p, err := kit.BuildPacket(w.Cdc, c.Transfer, false)
	if err != nil {
		t.Fatal(err)
	}
	ctx := w.Branch()
	before := w.Ledger(ctx)
	out := world.Recv(ctx, w.Stack, p)
	t.Logf("outcome: %s", out.String())
	t.Logf("delta: %s", world.Diff(before, w.Ledger(ctx)))
}
