package props

import (
	"bytes"
	"encoding/json"
	"fmt"
	"strings"
	"testing"

	"pgregory.net/rapid"

	sdkmath "cosmossdk.io/math"
	sdk "github.com/cosmos/cosmos-sdk/types"

	orbiter "github.com/noble-assets/orbiter/v2"
	orbitertypes "github.com/noble-assets/orbiter/v2/types"
	adaptertypes "github.com/noble-assets/orbiter/v2/types/component/adapter"
	dispatchertypes "github.com/noble-assets/orbiter/v2/types/component/dispatcher"
	executortypes "github.com/noble-assets/orbiter/v2/types/component/executor"
	forwardertypes "github.com/noble-assets/orbiter/v2/types/component/forwarder"
	"github.com/noble-assets/orbiter/v2/types/core"

	"verif/harness/kit"
	"verif/harness/world"
)

// C17 — genesis export/import round-trips and validated genesis initialises.

func appModule(w *world.World) orbiter.AppModule {
	return orbiter.NewAppModule(w.App.OrbiterKeeper)
}

// emptyOrbiterBranch returns a branch of the world's root in which the orbiter store has no keys:
// the state of a chain on which the module has never been initialised.
func emptyOrbiterBranch(w *world.World) sdk.Context {
	ctx := w.Branch()
	store := ctx.KVStore(w.App.GetKey(core.ModuleName))
	it := store.Iterator(nil, nil)
	var keys [][]byte
	for ; it.Valid(); it.Next() {
		keys = append(keys, append([]byte{}, it.Key()...))
	}
	it.Close()
	for _, k := range keys {
		store.Delete(k)
	}
	return ctx
}

func safeInit(w *world.World, ctx sdk.Context, bz json.RawMessage) (panicked any) {
	defer func() { panicked = recover() }()
	appModule(w).InitGenesis(ctx, w.Cdc, bz)
	return nil
}

func safeValidate(w *world.World, bz json.RawMessage) (err error, panicked any) {
	defer func() { panicked = recover() }()
	err = appModule(w).ValidateGenesis(w.Cdc, nil, bz)
	return err, nil
}

// probeBattery runs a fixed set of probe transfers and every query on a state and returns a
// transcript for comparison.
func probeBattery(w *world.World, ctx sdk.Context) string {
	var b strings.Builder
	probes := []kit.Transfer{
		{Channel: 0, Denom: world.Uusdc, Amount: "1000", Route: kit.Route{Kind: "cctp", Domain: 0, MintRecipient: kit.Fill32(1)}},
		{Channel: 1, Denom: world.Uusdc, Amount: "2000", Route: kit.Route{Kind: "cctp", Domain: 5, MintRecipient: kit.Fill32(1), DestCaller: kit.Fill32(2)}},
		{Channel: 0, Denom: world.Ufoo, Amount: "3000", Route: kit.Route{Kind: "hyp", Domain: 1, TokenID: w.HypToken[world.Ufoo], Recipient: kit.Fill32(3)}},
		{Channel: 2, Denom: world.Gamm, Amount: "4000", Route: kit.Route{Kind: "internal", To: world.Addr("alice").String()}},
		{Channel: 2, Denom: world.Gamm, Amount: "5000", Actions: []kit.Action{{Kind: "fee", Fees: []kit.Fee{{Recipient: world.Addr("bob").String(), Bps: 50}}}},
			Route: kit.Route{Kind: "internal", To: world.Addr("alice").String()}},
		{Channel: 3, Denom: world.Ufoo, Amount: "6000", Route: kit.Route{Kind: "internal", To: world.Addr("alice").String(), Passthrough: make([]byte, 9)}},
	}
	for i, tr := range probes {
		p, err := kit.BuildPacket(w.Cdc, tr, false)
		if err != nil {
			fmt.Fprintf(&b, "probe %d unbuildable\n", i)
			continue
		}
		c, _ := ctx.CacheContext()
		before := w.Ledger(c)
		out := world.Recv(c, w.Stack, p)
		fmt.Fprintf(&b, "probe %d: ok=%v delta=%s\n  stats=%s\n", i, out.Success, world.Diff(before, w.Ledger(c)), w.OrbiterGenesis(c))
	}
	impl := kit.ReadImpl(w, ctx)
	fmt.Fprintf(&b, "impl: %v %v %v %d\n", impl.PausedProtocols, impl.PausedCC, impl.PausedActions, impl.MaxPassthrough)
	return b.String()
}

type caseC17State struct {
	// Prior is the number of statistics routes that exist before the history starts (a chain that
	// has been running for a while): route i is (IBC channel-<1000+i>) -> (CCTP domain i mod 5),
	// denom uusdc, totals i+2 / i+1, count i+1.
	Prior   int         `json:"prior,omitempty"`
	History kit.History `json:"history"`
}

func runC17State(w *world.World, c caseC17State, rec *kit.Recorder) error {
	m := kit.NewMachine(w)
	if c.Prior > 0 {
		g := orbitertypes.DefaultGenesisState()
		for i := 0; i < c.Prior; i++ {
			src := core.CrossChainID{ProtocolId: core.PROTOCOL_IBC, CounterpartyId: fmt.Sprintf("channel-%d", 1000+i)}
			dst := core.CrossChainID{ProtocolId: core.PROTOCOL_CCTP, CounterpartyId: fmt.Sprint(i % 5)}
			g.DispatcherGenesis.DispatchedAmounts = append(g.DispatcherGenesis.DispatchedAmounts, dispatchertypes.DispatchedAmountEntry{
				SourceId: &src, DestinationId: &dst, Denom: world.Uusdc,
				AmountDispatched: dispatchertypes.AmountDispatched{Incoming: sdkmath.NewInt(int64(i + 2)), Outgoing: sdkmath.NewInt(int64(i + 1))},
			})
			g.DispatcherGenesis.DispatchedCounts = append(g.DispatcherGenesis.DispatchedCounts, dispatchertypes.DispatchCountEntry{SourceId: &src, DestinationId: &dst, Count: uint64(i + 1)})
		}
		if err := g.Validate(); err != nil {
			return fmt.Errorf("harness: prior statistics do not validate: %w", err)
		}
		var initErr any
		func() {
			defer func() { initErr = recover() }()
			w.App.OrbiterKeeper.InitGenesis(m.Ctx, *g)
		}()
		if initErr != nil {
			return fmt.Errorf("harness: importing the prior statistics panicked: %v", initErr)
		}
		rec.Label("state", fmt.Sprintf("prior statistics: %s routes", map[bool]string{true: "more than 100", false: "up to 100"}[c.Prior > 100]))
	}
	for _, s := range c.History {
		m.Do(s)
	}
	mod := appModule(w)
	exported := mod.ExportGenesis(m.Ctx, w.Cdc)
	if err, p := safeValidate(w, exported); err != nil || p != nil {
		return fmt.Errorf("the exported genesis does not pass validation: %v %v\n%s", err, p, exported)
	}
	fresh := emptyOrbiterBranch(w)
	if p := safeInit(w, fresh, exported); p != nil {
		return fmt.Errorf("the exported genesis cannot be initialised on an empty store: %v\n%s", p, exported)
	}
	again := mod.ExportGenesis(fresh, w.Cdc)
	if !bytes.Equal(exported, again) {
		return fmt.Errorf("export -> init -> export is not the identity:\n  first:  %s\n  second: %s", exported, again)
	}
	// nothing the original state held may be lost on the way: every key of the original module
	// store is in the re-imported store with the same value (the re-imported store may hold more,
	// e.g. parameters written out explicitly)
	{
		src := m.Ctx.KVStore(w.App.GetKey(core.ModuleName))
		dst := fresh.KVStore(w.App.GetKey(core.ModuleName))
		it := src.Iterator(nil, nil)
		lost, total := 0, 0
		var first []byte
		for ; it.Valid(); it.Next() {
			total++
			if v := dst.Get(it.Key()); !bytes.Equal(v, it.Value()) {
				if lost == 0 {
					first = append([]byte{}, it.Key()...)
				}
				lost++
			}
		}
		it.Close()
		if lost > 0 {
			return fmt.Errorf("export -> init loses state: %d of the %d keys of the original module store are missing or different in the re-initialised store (first: %q)", lost, total, first)
		}
	}
	// behaviour: the re-initialised state must behave identically. The rest of the chain state
	// of `fresh` is the root state, so replay the non-orbiter effects is not needed: compare the
	// battery on the original orbiter state transplanted vs the re-imported one, both over the
	// same (root) bank state.
	transplant := emptyOrbiterBranch(w)
	src := m.Ctx.KVStore(w.App.GetKey(core.ModuleName))
	dst := transplant.KVStore(w.App.GetKey(core.ModuleName))
	it := src.Iterator(nil, nil)
	for ; it.Valid(); it.Next() {
		dst.Set(it.Key(), it.Value())
	}
	it.Close()
	if a, b := probeBattery(w, transplant), probeBattery(w, fresh); a != b {
		return fmt.Errorf("the re-initialised chain behaves differently:\n--- original state\n%s\n--- re-imported state\n%s", a, b)
	}
	impl := kit.ReadImpl(w, m.Ctx)
	collections := 0
	for _, n := range []int{len(impl.PausedProtocols), len(impl.PausedCC), len(impl.PausedActions), len(impl.Amounts), int(impl.MaxPassthrough)} {
		if n > 0 {
			collections++
		}
	}
	if collections >= 2 {
		rec.NonTrivial(string(exported))
		rec.Label("state", "non-trivial (>= 2 collections populated)")
		rec.Sample("exported", json.RawMessage(exported))
	} else {
		rec.Label("state", "trivial")
	}
	return nil
}

func TestC17RoundTrip(t *testing.T) {
	w := prod(t)
	rec := kit.NewRecorder(t, "C17")
	opt := kit.HistOpt{
		MinSteps: 3, MaxSteps: maxSteps(),
		PacketW: 50, AdminW: 45, EnvW: 5,
		Packet: func(rt *rapid.T) kit.Transfer { return genC08Probe(rt, w) },
		Admin:  kit.AdminOpt{ForeignSignerPct: 3, InvalidPct: 5},
	}
	rapid.Check(t, func(rt *rapid.T) {
		c := caseC17State{History: kit.GenHistory(rt, opt)}
		if kit.Chance(rt, "prior", 20) {
			c.Prior = pick(rt, "prior/n", []int{1, 50, 99, 100, 101, 101, 130, 250})
		}
		rec.Eval()
		if err := runC17State(w, c, rec); err != nil {
			rec.Fail(rt, c, "%v", err)
		}
	})
	rec.Require("state", "non-trivial (>= 2 collections populated)", 50)
	rec.Require("state", "prior statistics: more than 100 routes", 10)
}

// ---------------------------------------------------------------------------------------------
// (b) any genesis accepted by validation can be initialised.

type caseC17Doc struct {
	Doc json.RawMessage `json:"doc"`
}

var c17Strings = []string{
	"noble", "x", "channel-0", "channel-1", "0", "1", "5", "10", "a:b", "2:5", ":", "", " ",
	"\x00", "a\x00b", "noble\x00", "\xff\xfe", "é", "noblé", "日本", "ü", "\xc3", "a\x80", "tab\there", "line\nfeed", "\x7f", strings.Repeat("a", 32), strings.Repeat("a", 33), strings.Repeat("9", 32),
	"05", "+5", "-1", "4294967295", "4294967296", "channel-007", "channel-18446744073709551615",
}

var c17Denoms = []string{"uusdc", "ufoo", "gamm/pool/1", "uusdc", "ufoo", "uswapped", "ibc/ABC", "x", "uusdc", "ufoo", "", "u\x00sdc", "\x00", strings.Repeat("d", 200)}

// c17Hostile is set per generated document: a share of the documents is valid in every member
// (so that acceptance is frequent), the rest gets hostile members with a modest probability each.
func hostile(t *rapid.T, label string, on bool) bool {
	return on && kit.Chance(t, label+"/hostile", 22)
}

func genCCID(t *rapid.T, label string, h bool) *core.CrossChainID {
	if hostile(t, label+"/nil", h) && kit.Chance(t, label+"/nil2", 15) {
		return nil
	}
	p := pick(t, label+"/proto", []int32{1, 2, 3, 4, 4})
	if hostile(t, label+"/proto", h) {
		p = pick(t, label+"/badproto", []int32{0, 5, -1, 2147483647})
	}
	cp := pick(t, label+"/vcp", c13Cps[absProto(p)])
	if hostile(t, label+"/cp", h) {
		cp = pick(t, label+"/cp", c17Strings)
	}
	return &core.CrossChainID{ProtocolId: core.ProtocolID(p), CounterpartyId: cp}
}

func absProto(p int32) int32 {
	if p >= 1 && p <= 4 {
		return p
	}
	return 4
}

func genC17Doc(t *rapid.T, w *world.World) json.RawMessage {
	h := kit.Chance(t, "hostile-doc", 55)
	g := orbitertypes.GenesisState{
		AdapterGenesis:    &adaptertypes.GenesisState{Params: adaptertypes.Params{MaxPassthroughPayloadSize: pick(t, "params", []uint32{0, 1, 77, 4294967295})}},
		DispatcherGenesis: &dispatchertypes.GenesisState{},
		ForwarderGenesis:  &forwardertypes.GenesisState{},
		ExecutorGenesis:   &executortypes.GenesisState{},
	}
	seenP := map[int32]bool{}
	for i, n := 0, rapid.IntRange(0, 4).Draw(t, "pp/n"); i < n; i++ {
		id := pick(t, fmt.Sprintf("pp/%d", i), []int32{1, 2, 3, 4})
		if hostile(t, fmt.Sprintf("pp/%d", i), h) {
			id = pick(t, fmt.Sprintf("pp/%d/bad", i), []int32{0, 7, id, -1})
		} else if seenP[id] {
			continue // repeated entries only in hostile mode
		}
		seenP[id] = true
		g.ForwarderGenesis.PausedProtocolIds = append(g.ForwarderGenesis.PausedProtocolIds, core.ProtocolID(id))
	}
	seenCC := map[string]bool{}
	for i, n := 0, rapid.IntRange(0, 4).Draw(t, "pcc/n"); i < n; i++ {
		id := genCCID(t, fmt.Sprintf("pcc/%d", i), h)
		if id != nil {
			k := fmt.Sprint(id.ProtocolId, "|", id.CounterpartyId)
			if seenCC[k] && !hostile(t, fmt.Sprintf("pcc/%d/dup", i), h) {
				continue
			}
			seenCC[k] = true
		}
		g.ForwarderGenesis.PausedCrossChainIds = append(g.ForwarderGenesis.PausedCrossChainIds, id)
	}
	seenA := map[int32]bool{}
	for i, n := 0, rapid.IntRange(0, 3).Draw(t, "pa/n"); i < n; i++ {
		id := pick(t, fmt.Sprintf("pa/%d", i), []int32{1, 2})
		if hostile(t, fmt.Sprintf("pa/%d", i), h) {
			id = pick(t, fmt.Sprintf("pa/%d/bad", i), []int32{0, 3, id})
		} else if seenA[id] {
			continue
		}
		seenA[id] = true
		g.ExecutorGenesis.PausedActionIds = append(g.ExecutorGenesis.PausedActionIds, core.ActionID(id))
	}
	amount := func(l string) sdkmath.Int {
		s := pick(t, l, []string{"1", "1000", "7", "999", "115792089237316195423570985008687907853269984665640564039457584007913129639935"})
		if hostile(t, l, h) {
			s = pick(t, l+"/bad", []string{"0", "-1"})
		}
		v, _ := sdkmath.NewIntFromString(s)
		return v
	}
	for i, n := 0, rapid.IntRange(0, 4).Draw(t, "da/n"); i < n; i++ {
		l := fmt.Sprintf("da/%d", i)
		denom := pick(t, l+"/denom", []string{"uusdc", "ufoo", "gamm/pool/1", "uswapped", "ibc/ABC", "x"})
		if hostile(t, l+"/denom", h) {
			denom = pick(t, l+"/baddenom", []string{"", "u\x00sdc", "\x00", strings.Repeat("d", 200), "a\x00", "\xff"})
		}
		e := dispatchertypes.DispatchedAmountEntry{SourceId: genCCID(t, l+"/src", h), DestinationId: genCCID(t, l+"/dst", h),
			Denom:            denom,
			AmountDispatched: dispatchertypes.AmountDispatched{Incoming: amount(l + "/in"), Outgoing: amount(l + "/out")}}
		g.DispatcherGenesis.DispatchedAmounts = append(g.DispatcherGenesis.DispatchedAmounts, e)
		if kit.Chance(t, l+"/dup", 15) {
			g.DispatcherGenesis.DispatchedAmounts = append(g.DispatcherGenesis.DispatchedAmounts, e)
		}
	}
	for i, n := 0, rapid.IntRange(0, 4).Draw(t, "dc/n"); i < n; i++ {
		l := fmt.Sprintf("dc/%d", i)
		count := pick(t, l+"/count", []uint64{1, 2, 3, 1000, 18446744073709551615})
		if hostile(t, l+"/count", h) {
			count = 0
		}
		g.DispatcherGenesis.DispatchedCounts = append(g.DispatcherGenesis.DispatchedCounts, dispatchertypes.DispatchCountEntry{
			SourceId: genCCID(t, l+"/src", h), DestinationId: genCCID(t, l+"/dst", h), Count: count})
	}
	if hostile(t, "nil-member", h) && kit.Chance(t, "nil-member2", 20) {
		switch pick(t, "which", []string{"adapter", "dispatcher", "forwarder", "executor"}) {
		case "adapter":
			g.AdapterGenesis = nil
		case "dispatcher":
			g.DispatcherGenesis = nil
		case "forwarder":
			g.ForwarderGenesis = nil
		default:
			g.ExecutorGenesis = nil
		}
	}
	var bz []byte
	func() {
		defer func() { recover() }()
		bz, _ = w.Cdc.MarshalJSON(&g)
	}()
	return bz
}

func runC17Doc(w *world.World, c caseC17Doc, rec *kit.Recorder) error {
	if len(c.Doc) == 0 {
		rec.Label("doc", "unserialisable")
		return nil
	}
	err, p := safeValidate(w, c.Doc)
	if p != nil {
		// a panic inside validation is not an acceptance: a don't-care for this property,
		// recorded as an observation
		rec.Label("doc", "validation panics (observation, not an acceptance)")
		return nil
	}
	if err != nil {
		rec.Label("doc", "refused by validation")
		return nil
	}
	rec.Label("doc", "accepted by validation")
	fresh := emptyOrbiterBranch(w)
	if p := safeInit(w, fresh, c.Doc); p != nil {
		return fmt.Errorf("a genesis accepted by validation cannot be initialised: %v\n%s", p, c.Doc)
	}
	def, _ := w.Cdc.MarshalJSON(orbitertypes.DefaultGenesisState())
	if !bytes.Equal(def, c.Doc) {
		rec.NonTrivial(string(c.Doc))
		rec.Sample("accepted", json.RawMessage(c.Doc))
	}
	// and the resulting state round-trips
	mod := appModule(w)
	exported := mod.ExportGenesis(fresh, w.Cdc)
	if err, p := safeValidate(w, exported); err != nil || p != nil {
		return fmt.Errorf("state initialised from an accepted genesis exports a genesis that does not validate: %v %v", err, p)
	}
	fresh2 := emptyOrbiterBranch(w)
	if p := safeInit(w, fresh2, exported); p != nil {
		return fmt.Errorf("re-import of the exported state panics: %v", p)
	}
	if again := mod.ExportGenesis(fresh2, w.Cdc); !bytes.Equal(exported, again) {
		return fmt.Errorf("export -> init -> export is not the identity:\n%s\n%s", exported, again)
	}
	return nil
}

func TestC17Documents(t *testing.T) {
	w := prod(t)
	rec := kit.NewRecorder(t, "C17")
	rapid.Check(t, func(rt *rapid.T) {
		c := caseC17Doc{Doc: genC17Doc(rt, w)}
		rec.Eval()
		if err := runC17Doc(w, c, rec); err != nil {
			rec.Fail(rt, c, "%v", err)
		}
	})
	rec.Require("doc", "accepted by validation", 100)
	rec.Require("doc", "refused by validation", 100)
}

// TestC17FreshChain boots a brand-new application through InitChain with an exported orbiter
// section (thorough tier: one new app per case).
func TestC17FreshChain(t *testing.T) {
	w := prod(t)
	rec := kit.NewRecorder(t, "C17")
	opt := kit.HistOpt{
		MinSteps: 5, MaxSteps: 25, PacketW: 50, AdminW: 50,
		Packet: func(rt *rapid.T) kit.Transfer { return genC08Probe(rt, w) },
		Admin:  kit.AdminOpt{ForeignSignerPct: 3, InvalidPct: 5},
	}
	rapid.Check(t, func(rt *rapid.T) {
		c := caseC17State{History: kit.GenHistory(rt, opt)}
		rec.Eval()
		m := kit.NewMachine(w)
		for _, s := range c.History {
			m.Do(s)
		}
		exported := appModule(w).ExportGenesis(m.Ctx, w.Cdc)
		w2, err := world.New(world.Options{OrbiterGenesis: exported})
		if err != nil {
			rec.Fail(rt, c, "a fresh chain cannot be initialised (InitChain) with the exported orbiter genesis: %v\n%s", err, exported)
		}
		again := appModule(w2).ExportGenesis(w2.Branch(), w2.Cdc)
		if !bytes.Equal(exported, again) {
			rec.Fail(rt, c, "fresh chain re-exports a different genesis:\n%s\n%s", exported, again)
		}
		// behaviour: the battery on the fresh chain vs the original orbiter state over the root
		transplant := emptyOrbiterBranch(w)
		src := m.Ctx.KVStore(w.App.GetKey(core.ModuleName))
		dst := transplant.KVStore(w.App.GetKey(core.ModuleName))
		it := src.Iterator(nil, nil)
		for ; it.Valid(); it.Next() {
			dst.Set(it.Key(), it.Value())
		}
		it.Close()
		if a, b := probeBattery(w, transplant), probeBattery(w2, w2.Branch()); a != b {
			rec.Fail(rt, c, "the fresh chain behaves differently:\n--- original\n%s\n--- fresh chain\n%s", a, b)
		}
		rec.NonTrivial(string(exported))
		rec.Label("fresh-chain", "booted and compared")
	})
}

func init() {
	kit.RegisterReplay("TestC17RoundTrip", func(raw json.RawMessage) error {
		c, err := decode[caseC17State](raw)
		if err != nil {
			return fmt.Errorf("harness: %w", err)
		}
		return runC17State(prodW, c, nil)
	})
	kit.RegisterReplay("TestC17Documents", func(raw json.RawMessage) error {
		c, err := decode[caseC17Doc](raw)
		if err != nil {
			return fmt.Errorf("harness: %w", err)
		}
		return runC17Doc(prodW, c, nil)
	})
}
