package props

import (
	"bytes"
	"encoding/json"
	"fmt"
	"math/big"
	"sort"
	"testing"

	"pgregory.net/rapid"

	sdkmath "cosmossdk.io/math"
	sdk "github.com/cosmos/cosmos-sdk/types"
	"github.com/cosmos/cosmos-sdk/types/query"

	orbitertypes "github.com/noble-assets/orbiter/v2/types"
	dispatchertypes "github.com/noble-assets/orbiter/v2/types/component/dispatcher"
	"github.com/noble-assets/orbiter/v2/types/core"

	"verif/harness/kit"
	"verif/harness/world"
)

// C13 — statistics queries and pagination are faithful views of the ledger.

const dispQuery = "/noble.orbiter.component.dispatcher.v1.Query/"

type entryC13 struct {
	SrcProto int32  `json:"sp"`
	SrcCp    string `json:"sc"`
	DstProto int32  `json:"dp"`
	DstCp    string `json:"dc"`
	Denom    string `json:"denom"`
	In       string `json:"in"`
	Out      string `json:"out"`
	Count    uint64 `json:"count"`
}

type pageReq struct {
	Limit      uint64 `json:"limit"`
	Offset     uint64 `json:"offset,omitempty"`
	Reverse    bool   `json:"reverse,omitempty"`
	CountTotal bool   `json:"count_total,omitempty"`
}

type caseC13 struct {
	Entries []entryC13 `json:"entries"`
	Pages   []pageReq  `json:"pages"`
	// History, when set, is run after the import so that entries are also updated in place.
	History kit.History `json:"history,omitempty"`
}

var c13Cps = map[int32][]string{
	kit.ProtoIBC:      {"channel-0", "channel-1", "channel-2", "channel-10"},
	kit.ProtoCCTP:     {"0", "1", "5", "10", "4294967295"},
	kit.ProtoHyp:      {"1", "2", "7"},
	kit.ProtoInternal: {"noble", "a:b", "x"},
}

func genC13(t *rapid.T, w *world.World) caseC13 {
	n := pick(t, "n", []int{0, 1, 2, 3, 5, 8, 13, 21, 40, 60, 60, 130, 250})
	var c caseC13
	for i := 0; i < n; i++ {
		l := fmt.Sprintf("e%d", i)
		sp := pick(t, l+"/sp", []int32{kit.ProtoIBC, kit.ProtoIBC, kit.ProtoIBC, kit.ProtoCCTP, kit.ProtoHyp, kit.ProtoInternal})
		dp := pick(t, l+"/dp", []int32{kit.ProtoCCTP, kit.ProtoHyp, kit.ProtoInternal, kit.ProtoIBC})
		e := entryC13{
			SrcProto: sp, SrcCp: pick(t, l+"/sc", c13Cps[sp]),
			DstProto: dp, DstCp: pick(t, l+"/dc", c13Cps[dp]),
			Denom: pick(t, l+"/denom", []string{world.Uusdc, world.Ufoo, world.Gamm, "uswapped", world.IBCVoucher, world.OddDenom, world.LongDenom}),
			In:    pick(t, l+"/in", []string{"0", "1", "1000", "999999999999", "115792089237316195423570985008687907853269984665640564039457584007913129639935"}),
			Out:   pick(t, l+"/out", []string{"0", "1", "990", "5"}),
			Count: uint64(rapid.IntRange(1, 1000).Draw(t, l+"/count")),
		}
		if e.In == "0" && e.Out == "0" {
			e.Out = "3"
		}
		c.Entries = append(c.Entries, e)
	}
	for i, m := 0, rapid.IntRange(2, 6).Draw(t, "pages"); i < m; i++ {
		l := fmt.Sprintf("p%d", i)
		p := pageReq{Limit: uint64(pick(t, l+"/limit", []int{1, 1, 2, 3, 5, 7, 0, n + 2, 100, 101, 1000, 4294967296})), Reverse: kit.Chance(t, l+"/rev", 40), CountTotal: kit.Chance(t, l+"/ct", 50)}
		if kit.Chance(t, l+"/offset", 40) {
			p.Offset = uint64(rapid.IntRange(0, n+1).Draw(t, l+"/off"))
		}
		c.Pages = append(c.Pages, p)
	}
	if kit.Chance(t, "history", 35) {
		c.History = kit.GenHistory(t, kit.HistOpt{MinSteps: 1, MaxSteps: 8, PacketW: 100, Packet: func(t *rapid.T) kit.Transfer { return genC08Probe(t, w) }})
	}
	return c
}

type amtKey struct {
	sp    int32
	sc    string
	dp    int32
	dc    string
	denom string
}

type cntKey struct {
	sp int32
	sc string
	dp int32
	dc string
}

func runC13(w *world.World, c caseC13, rec *kit.Recorder) error {
	ctx := w.Branch()
	g := orbitertypes.DefaultGenesisState()
	amounts := map[amtKey][2]*big.Int{}
	counts := map[cntKey]uint64{}
	for _, e := range c.Entries {
		in, _ := new(big.Int).SetString(e.In, 10)
		out, _ := new(big.Int).SetString(e.Out, 10)
		src := core.CrossChainID{ProtocolId: core.ProtocolID(e.SrcProto), CounterpartyId: e.SrcCp}
		dst := core.CrossChainID{ProtocolId: core.ProtocolID(e.DstProto), CounterpartyId: e.DstCp}
		g.DispatcherGenesis.DispatchedAmounts = append(g.DispatcherGenesis.DispatchedAmounts, dispatchertypes.DispatchedAmountEntry{
			SourceId: &src, DestinationId: &dst, Denom: e.Denom,
			AmountDispatched: dispatchertypes.AmountDispatched{Incoming: sdkmath.NewIntFromBigInt(in), Outgoing: sdkmath.NewIntFromBigInt(out)},
		})
		g.DispatcherGenesis.DispatchedCounts = append(g.DispatcherGenesis.DispatchedCounts, dispatchertypes.DispatchCountEntry{SourceId: &src, DestinationId: &dst, Count: e.Count})
		// later entries with the same key overwrite earlier ones, as a map would
		amounts[amtKey{e.SrcProto, e.SrcCp, e.DstProto, e.DstCp, e.Denom}] = [2]*big.Int{in, out}
		counts[cntKey{e.SrcProto, e.SrcCp, e.DstProto, e.DstCp}] = e.Count
	}
	if err := g.Validate(); err != nil {
		return fmt.Errorf("harness: generated ledger does not validate: %w", err)
	}
	var initErr any
	func() {
		defer func() { initErr = recover() }()
		w.App.OrbiterKeeper.InitGenesis(ctx, *g)
	}()
	if initErr != nil {
		return fmt.Errorf("harness: importing the ledger panicked: %v", initErr)
	}
	// optional history on top: entries are created and updated in place by real transfers
	if len(c.History) > 0 {
		m := &kit.Machine{W: w, Ctx: ctx, Model: kit.NewState()}
		for _, s := range c.History {
			o := m.Do(s)
			if s.Packet != nil && o.Out.Success {
				t := *s.Packet
				dp, dc := kit.Destination(t.Route)
				ak := amtKey{kit.ProtoIBC, world.NobleChannel(t.Channel), dp, dc, t.Denom}
				cur, ok := amounts[ak]
				if !ok {
					cur = [2]*big.Int{new(big.Int), new(big.Int)}
				}
				if new(big.Int).Add(cur[0], t.AmountInt()).BitLen() > 256 {
					continue // the 256-bit bound (C14/C12 domain bound): the entry is left as it is
				}
				amounts[ak] = [2]*big.Int{new(big.Int).Add(cur[0], t.AmountInt()), new(big.Int).Add(cur[1], o.Run.Amount)}
				counts[cntKey{kit.ProtoIBC, world.NobleChannel(t.Channel), dp, dc}]++
				rec.Label("ledger", "entry updated by a transfer")
			}
		}
	}
	matchingMax := 0

	// direct lookups over the whole pool of keys
	for _, sp := range []int32{1, 2, 3, 4} {
		for _, sc := range c13Cps[sp] {
			for _, dp := range []int32{1, 2, 3, 4} {
				for _, dc := range c13Cps[dp] {
					var cr dispatchertypes.QueryDispatchedCountsResponse
					err := w.Query(ctx, dispQuery+"DispatchedCounts", &dispatchertypes.QueryDispatchedCountsRequest{
						SourceProtocolId: kit.ProtocolName(sp), SourceCounterpartyId: sc, DestinationProtocolId: kit.ProtocolName(dp), DestinationCounterpartyId: dc}, &cr)
					want, has := counts[cntKey{sp, sc, dp, dc}]
					if has != (err == nil) {
						return fmt.Errorf("DispatchedCounts(%d,%s,%d,%s): model has entry=%v (%d), query error=%v", sp, sc, dp, dc, has, want, err)
					}
					if has && (len(cr.Counts) != 1 || cr.Counts[0].Count != want) {
						return fmt.Errorf("DispatchedCounts(%d,%s,%d,%s) = %v, want %d", sp, sc, dp, dc, cr.Counts, want)
					}
				}
			}
		}
	}
	for k, v := range amounts {
		var ar dispatchertypes.QueryDispatchedAmountsResponse
		err := w.Query(ctx, dispQuery+"DispatchedAmounts", &dispatchertypes.QueryDispatchedAmountsRequest{
			SourceProtocolId: kit.ProtocolName(k.sp), SourceCounterpartyId: k.sc, DestinationProtocolId: kit.ProtocolName(k.dp), DestinationCounterpartyId: k.dc, Denom: k.denom}, &ar)
		if err != nil || len(ar.Amounts) != 1 || ar.Amounts[0].AmountDispatched.Incoming.BigInt().Cmp(v[0]) != 0 || ar.Amounts[0].AmountDispatched.Outgoing.BigInt().Cmp(v[1]) != 0 {
			return fmt.Errorf("DispatchedAmounts(%+v): %v %v, want in=%s out=%s", k, ar.Amounts, err, v[0], v[1])
		}
		// and a neighbouring key that has no entry
		var none dispatchertypes.QueryDispatchedAmountsResponse
		if _, exists := amounts[amtKey{k.sp, k.sc, k.dp, k.dc, "unobtainium"}]; !exists {
			if err := w.Query(ctx, dispQuery+"DispatchedAmounts", &dispatchertypes.QueryDispatchedAmountsRequest{
				SourceProtocolId: kit.ProtocolName(k.sp), SourceCounterpartyId: k.sc, DestinationProtocolId: kit.ProtocolName(k.dp), DestinationCounterpartyId: k.dc, Denom: "unobtainium"}, &none); err == nil {
				return fmt.Errorf("DispatchedAmounts for a denom without entry returned %v", none.Amounts)
			}
		}
	}

	// listings
	for _, proto := range []int32{1, 2, 3, 4} {
		for _, side := range []string{"Source", "Destination"} {
			wantAmt := map[string]string{}
			for k, v := range amounts {
				if (side == "Source" && k.sp == proto) || (side == "Destination" && k.dp == proto) {
					wantAmt[fmt.Sprint(k)] = v[0].String() + "/" + v[1].String()
				}
			}
			wantCnt := map[string]string{}
			for k, v := range counts {
				if (side == "Source" && k.sp == proto) || (side == "Destination" && k.dp == proto) {
					wantCnt[fmt.Sprint(k)] = fmt.Sprint(v)
				}
			}
			if len(wantAmt) > matchingMax {
				matchingMax = len(wantAmt)
			}
			listAmt := func(p *query.PageRequest) ([]string, []string, *query.PageResponse, error) {
				var r dispatchertypes.QueryDispatchedAmountsResponse
				err := w.Query(ctx, dispQuery+"DispatchedAmountsBy"+side+"ProtocolID", &dispatchertypes.QueryDispatchedAmountsByProtocolIDRequest{ProtocolId: kit.ProtocolName(proto), Pagination: p}, &r)
				var ks, vs []string
				for _, e := range r.Amounts {
					ks = append(ks, fmt.Sprint(amtKey{int32(e.SourceId.ProtocolId), e.SourceId.CounterpartyId, int32(e.DestinationId.ProtocolId), e.DestinationId.CounterpartyId, e.Denom}))
					vs = append(vs, e.AmountDispatched.Incoming.String()+"/"+e.AmountDispatched.Outgoing.String())
				}
				return ks, vs, r.Pagination, err
			}
			listCnt := func(p *query.PageRequest) ([]string, []string, *query.PageResponse, error) {
				var r dispatchertypes.QueryDispatchedCountsResponse
				err := w.Query(ctx, dispQuery+"DispatchedCountsBy"+side+"ProtocolID", &dispatchertypes.QueryDispatchedCountsByProtocolIDRequest{ProtocolId: kit.ProtocolName(proto), Pagination: p}, &r)
				var ks, vs []string
				for _, e := range r.Counts {
					ks = append(ks, fmt.Sprint(cntKey{int32(e.SourceId.ProtocolId), e.SourceId.CounterpartyId, int32(e.DestinationId.ProtocolId), e.DestinationId.CounterpartyId}))
					vs = append(vs, fmt.Sprint(e.Count))
				}
				return ks, vs, r.Pagination, err
			}
			for _, kind := range []struct {
				name string
				want map[string]string
				list func(*query.PageRequest) ([]string, []string, *query.PageResponse, error)
			}{{"amounts", wantAmt, listAmt}, {"counts", wantCnt, listCnt}} {
				what := fmt.Sprintf("%s by %s protocol %d", kind.name, side, proto)
				// KNOWN FINDING C13-reverse-prefix (known_findings.json): with reverse=true and a
				// key, the SDK paginator (cosmos-sdk v0.50.13 getCollIter) starts at
				// PrefixEndBytes(prefix+key), which also covers every key that merely EXTENDS the
				// given key: when the last (unterminated) string component of one entry's key is a
				// proper prefix of another's ("1" / "10", "channel-1" / "channel-10") entries are
				// visited twice. Reverse key walks over such listings are excluded by construction.
				reverseExcluded := !probeReverse && terminalPrefixRelated(kind.name, amounts, counts, side, proto)
				// full walks following next_key, forwards and in reverse, for every page limit
				var forward []string
				for _, pr := range c.Pages {
					if pr.Reverse && reverseExcluded {
						rec.Exclude("reverse key walk over a listing with prefix-related terminal key components (known finding C13-reverse-prefix)")
						continue
					}
					walk, err := walkPages(kind.list, pr.Limit, pr.Reverse, kind.want, pr.CountTotal)
					if err != nil {
						return fmt.Errorf("%s, limit %d reverse %v: %w", what, pr.Limit, pr.Reverse, err)
					}
					if pr.Limit > 0 && int(pr.Limit) < len(kind.want) && len(kind.want) >= 3 && len(kind.want) < len(amounts)+len(counts) {
						rec.NonTrivial(fmt.Sprintf("%d|%s|%s|%d|%v|%s", len(c.Entries), kind.name, side, pr.Limit, pr.Reverse, kit.JSON(c.Entries)))
						rec.Label("walk", "limit below the matching set, foreign entries present")
					}
					if !pr.Reverse {
						if forward != nil && fmt.Sprint(forward) != fmt.Sprint(walk) {
							return fmt.Errorf("%s: forward walks with different limits disagree on the order", what)
						}
						forward = walk
					} else if forward != nil {
						rev := append([]string{}, walk...)
						for i, j := 0, len(rev)-1; i < j; i, j = i+1, j-1 {
							rev[i], rev[j] = rev[j], rev[i]
						}
						if fmt.Sprint(rev) != fmt.Sprint(forward) {
							return fmt.Errorf("%s: the reverse walk is not the reverse of the forward walk", what)
						}
					}
				}
				if forward == nil {
					var err error
					if forward, err = walkPages(kind.list, 3, false, kind.want); err != nil {
						return fmt.Errorf("%s: %w", what, err)
					}
				}
				// offset pages are slices of the full walk; count_total is the size of the set
				for _, pr := range c.Pages {
					limit := pr.Limit
					ks, _, page, err := kind.list(&query.PageRequest{Offset: pr.Offset, Limit: limit, CountTotal: pr.CountTotal, Reverse: pr.Reverse})
					if err != nil {
						return fmt.Errorf("%s offset %d limit %d: %v", what, pr.Offset, limit, err)
					}
					full := forward
					if pr.Reverse {
						full = make([]string, len(forward))
						for i := range forward {
							full[len(forward)-1-i] = forward[i]
						}
					}
					eff := int(limit)
					if eff == 0 {
						eff = query.DefaultLimit
					}
					lo := int(pr.Offset)
					if lo > len(full) {
						lo = len(full)
					}
					hi := lo + eff
					if hi > len(full) {
						hi = len(full)
					}
					if fmt.Sprint(ks) != fmt.Sprint(full[lo:hi]) {
						return fmt.Errorf("%s: page offset=%d limit=%d reverse=%v is %v, the corresponding slice of the full walk is %v", what, pr.Offset, limit, pr.Reverse, ks, full[lo:hi])
					}
					// (an offset beyond the end makes the SDK's paginator return an empty page
					// response, total included: not asserted)
					if pr.CountTotal && page != nil && int(pr.Offset) <= len(kind.want) && page.Total != uint64(len(kind.want)) {
						return fmt.Errorf("%s: total %d, matching set has %d entries", what, page.Total, len(kind.want))
					}
				}
				// key and offset together are invalid
				if _, _, _, err := kind.list(&query.PageRequest{Key: []byte{1}, Offset: 1, Limit: 1}); err == nil {
					return fmt.Errorf("%s: a page request with both key and offset was accepted", what)
				}
			}
			// counts and amounts listings agree on the set of routes
			routesA := map[string]bool{}
			for k := range amounts {
				if (side == "Source" && k.sp == proto) || (side == "Destination" && k.dp == proto) {
					routesA[fmt.Sprint(cntKey{k.sp, k.sc, k.dp, k.dc})] = true
				}
			}
			for r := range routesA {
				if _, ok := wantCnt[r]; !ok {
					return fmt.Errorf("harness: model inconsistency for route %s", r)
				}
			}
		}
	}
	rec.Label("ledger", fmt.Sprintf("entries<=%d", bucket(len(c.Entries))))
	rec.Sample("ledger", c)
	return nil
}

func bucket(n int) int {
	for _, b := range []int{0, 3, 8, 21, 60} {
		if n <= b {
			return b
		}
	}
	return 1000
}

// walkPages follows next_key until it is empty and checks that the walk visits exactly the
// wanted set, each entry once, with equal values.
func walkPages(list func(*query.PageRequest) ([]string, []string, *query.PageResponse, error), limit uint64, reverse bool, want map[string]string, countTotal ...bool) ([]string, error) {
	ct := len(countTotal) > 0 && countTotal[0]
	var key []byte
	var all []string
	seen := map[string]bool{}
	for page := 0; ; page++ {
		ks, vs, pr, err := list(&query.PageRequest{Key: key, Limit: limit, Reverse: reverse, CountTotal: ct})
		if err != nil {
			return nil, fmt.Errorf("page %d: %v", page, err)
		}
		// a total asked for while following keys: the paginator may leave it out (0), but a number
		// it does report is the size of the matching set
		if ct && pr != nil && pr.Total != 0 && pr.Total != uint64(len(want)) {
			return nil, fmt.Errorf("page %d (key walk with count_total): total %d, matching set has %d entries", page, pr.Total, len(want))
		}
		eff := limit
		if eff == 0 {
			eff = query.DefaultLimit
		}
		if uint64(len(ks)) > eff {
			return nil, fmt.Errorf("page %d has %d entries, limit %d", page, len(ks), eff)
		}
		for i, k := range ks {
			if seen[k] {
				return nil, fmt.Errorf("entry %s visited twice", k)
			}
			seen[k] = true
			wv, ok := want[k]
			if !ok {
				return nil, fmt.Errorf("foreign entry %s listed", k)
			}
			if wv != vs[i] {
				return nil, fmt.Errorf("entry %s listed with value %s, ledger has %s", k, vs[i], wv)
			}
			all = append(all, k)
		}
		if pr == nil || len(pr.NextKey) == 0 {
			break
		}
		if bytes.Equal(pr.NextKey, key) || page > 500 {
			return nil, fmt.Errorf("pagination does not advance")
		}
		key = pr.NextKey
	}
	if len(all) != len(want) {
		var missing []string
		for k := range want {
			if !seen[k] {
				missing = append(missing, k)
			}
		}
		sort.Strings(missing)
		return nil, fmt.Errorf("walk visited %d of %d matching entries; omitted: %v", len(all), len(want), missing)
	}
	return all, nil
}

var _ = sdk.Context{}

func TestC13Queries(t *testing.T) {
	w := prod(t)
	rec := kit.NewRecorder(t, "C13")
	rapid.Check(t, func(rt *rapid.T) {
		c := genC13(rt, w)
		rec.Eval()
		if err := runC13(w, c, rec); err != nil {
			rec.Fail(rt, c, "%v", err)
		}
	})
	rec.Require("walk", "limit below the matching set, foreign entries present", 30)
}

func init() {
	kit.RegisterReplay("TestC13Queries", func(raw json.RawMessage) error {
		c, err := decode[caseC13](raw)
		if err != nil {
			return fmt.Errorf("harness: %w", err)
		}
		return runC13(prodW, c, nil)
	})
}

// terminalPrefixRelated reports whether two matching entries of a listing have keys that differ
// only in the last string component, one being a proper prefix of the other.
func terminalPrefixRelated(kind string, amounts map[amtKey][2]*big.Int, counts map[cntKey]uint64, side string, proto int32) bool {
	groups := map[string][]string{}
	if kind == "amounts" {
		for k := range amounts {
			if (side == "Source" && k.sp == proto) || (side == "Destination" && k.dp == proto) {
				g := fmt.Sprint(k.sp, "|", k.sc, "|", k.dp, "|", k.dc)
				groups[g] = append(groups[g], k.denom)
			}
		}
	} else {
		for k := range counts {
			if (side == "Source" && k.sp == proto) || (side == "Destination" && k.dp == proto) {
				g := fmt.Sprint(k.sp, "|", k.sc, "|", k.dp)
				groups[g] = append(groups[g], k.dc)
			}
		}
	}
	for _, terms := range groups {
		for _, a := range terms {
			for _, b := range terms {
				if a != b && len(a) < len(b) && b[:len(a)] == a {
					return true
				}
			}
		}
	}
	return false
}

// TestC13KnownReversePrefix is the directed probe of the known finding C13-reverse-prefix: it
// prints a KNOWN-FINDING line when the finding still reproduces and is silent once it does not.
func TestC13KnownReversePrefix(t *testing.T) {
	w := prod(t)
	rec := kit.NewRecorder(t, "C13")
	mk := func(dc string) entryC13 {
		return entryC13{SrcProto: kit.ProtoIBC, SrcCp: "channel-0", DstProto: kit.ProtoCCTP, DstCp: dc, Denom: world.Uusdc, In: "5", Out: "4", Count: 1}
	}
	c := caseC13{Entries: []entryC13{mk("1"), mk("10"), mk("0")}, Pages: []pageReq{{Limit: 1, Reverse: true}}}
	rec.Eval()
	rec.NonTrivial("probe:" + kit.JSON(c))
	rec.NonTrivial("probe2:" + kit.JSON(c))
	probeReverse = true
	err := runC13(w, c, nil)
	probeReverse = false
	if err != nil {
		fmt.Printf("KNOWN-FINDING: property=C13 reverse pagination with a key revisits entries when one entry's last key component (destination counterparty / denom) is a proper prefix of another's, e.g. CCTP domains \"1\" and \"10\" (cosmos-sdk v0.50.13 paginator; id C13-reverse-prefix): %v\n", err)
		rec.Note("known finding C13-reverse-prefix reproduced by the directed probe")
	} else {
		rec.Note("known finding C13-reverse-prefix no longer reproduces")
	}
}

// probeReverse disables the by-construction exclusion for the directed probe.
var probeReverse bool
