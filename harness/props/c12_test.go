package props

import (
	"encoding/json"
	"fmt"
	"math/big"
	"testing"

	"pgregory.net/rapid"

	"verif/harness/kit"
	"verif/harness/world"
)

// C12 — dispatch statistics equal the fold of the successful transfers.

var maxC12Huge = new(big.Int).Lsh(big.NewInt(1), 248)

// genC12Packet: constructed orbiter transfers (most of them acceptable in the environment, some
// refused for every kind of reason), clearly invalid memos, and traffic for other receivers.
func genC12Packet(t *rapid.T, w *world.World, rec *kit.Recorder) kit.Transfer {
	tr := kit.GenTransfer(t, w, kit.TransferOpt{
		Route: kit.RouteOpt{
			EnvValid:        chance(t, "envvalid", 85),
			InternalClasses: []string{"plain", "plain", "plain", "plain-upper", "dust", "blacklisted", "fresh"},
		},
		FeeClasses:     []string{"plain", "plain", "plain", "plain-upper", "blacklisted", "fresh", "orbiter"},
		MaxActions:     1,
		KeepBelowLimit: chance(t, "belowlimit", 90),
	})
	// Stated domain bound: the totals are 256-bit by type; keep every entry's cumulative amount
	// below 2^256 by bounding single amounts (histories have at most 60 packet steps).
	if tr.AmountInt().Cmp(maxC12Huge) > 0 {
		rec.Exclude("amount above 2^248 (statistics are 256-bit by type; the bound itself is probed under C14)")
		tr.Amount = maxC12Huge.String()
		if len(tr.Actions) > 0 {
			tr.Actions[0].Fees = kit.ValidFees(t, "fees2", maxC12Huge, []string{"plain"})
		}
	}
	switch pick(t, "packet/class", []string{"orbiter", "orbiter", "orbiter", "orbiter", "orbiter", "orbiter", "orbiter", "plain", "garbage", "bad-fee"}) {
	case "plain":
		tr.Receiver = kit.PlainUser(t, "rcv/plain")
	case "garbage":
		m := pick(t, "garbage/memo", []string{"", "{}", "null", `{"orbiter":{}}`, `{"orbiter":null}`, "not json", `{"orbiter":{"forwarding":{"protocol_id":9}}}`})
		tr.RawMemo = &m
	case "bad-fee":
		A := tr.AmountInt()
		tr.Actions = []kit.Action{{Kind: "fee", Fees: []kit.Fee{{Recipient: kit.PlainUser(t, "badfee/rcpt"), Fixed: A.String()}}}}
	}
	return tr
}

func runC12(w *world.World, c caseHistory, rec *kit.Recorder) error {
	return runC12On(w, nil, c, rec)
}

func runC12On(w *world.World, l *world.Lab, c caseHistory, rec *kit.Recorder) error {
	m := kit.NewMachine(w)
	if l != nil {
		m.Stack = l.Stack
		l.Begin()
	}
	successes, refused := 0, 0
	keys := map[kit.StatKey]bool{}
	for i, s := range c.History {
		o := m.Do(s)
		rec.Label("step", s.Kind())
		if s.Packet != nil && o.BuildErr == nil {
			t := *s.Packet
			if o.Out.Panicked() {
				rec.Label("c12", "panic (C14's subject)")
				// nothing was written; statistics must be unchanged, which the comparison checks
			}
			orbiter := t.RawData == nil && orbiterAddressed(t.ReceiverString())
			switch {
			case orbiter && o.Out.Success && kit.Constructed(t):
				successes++
				m.Model.RecordTransfer(world.NobleChannel(t.Channel), t.Route, t.Denom, t.AmountInt(), o.Run.Denom, o.Run.Amount)
				dp, dc := kit.Destination(t.Route)
				keys[kit.StatKey{SrcProto: kit.ProtoIBC, SrcCp: world.NobleChannel(t.Channel), DstProto: dp, DstCp: dc, Denom: t.Denom}] = true
				rec.Label("transfer", "success/"+t.Route.Kind)
				if o.Run.Denom != t.Denom {
					rec.Label("transfer", "success with a denomination change (two entries)")
				}
			case orbiter && !o.Out.Success:
				refused++
				rec.Label("transfer", "refused")
			case !orbiter:
				rec.Label("transfer", "non-orbiter traffic")
			}
		}
		if err := m.Model.CompareStats(m.Impl()); err != nil {
			return fmt.Errorf("after step %d (%s): %w", i, kit.JSON(s), err)
		}
	}
	if successes >= 2 && len(keys) >= 2 && refused >= 1 {
		rec.NonTrivial(kit.JSON(c))
		rec.Label("history", "non-trivial (>=2 successes on >=2 keys, >=1 refused)")
		rec.Sample("history", c)
	} else {
		rec.Label("history", "trivial")
	}
	return nil
}

func TestC12History(t *testing.T) {
	w := prod(t)
	rec := kit.NewRecorder(t, "C12")
	opt := kit.HistOpt{
		MinSteps: 4, MaxSteps: maxSteps() + 10,
		PacketW: 80, AdminW: 10, EnvW: 10,
		Packet: func(rt *rapid.T) kit.Transfer { return genC12Packet(rt, w, rec) },
		Admin:  kit.AdminOpt{ForeignSignerPct: 10, InvalidPct: 10},
	}
	rapid.Check(t, func(rt *rapid.T) {
		c := caseHistory{History: kit.GenHistory(rt, opt)}
		rec.Eval()
		if err := runC12(w, c, rec); err != nil {
			rec.Fail(rt, c, "%v", err)
		}
	})
	rec.Require("history", "non-trivial (>=2 successes on >=2 keys, >=1 refused)", 20)
}

// TestC12Lab runs the fold in the LAB world, where a denomination-changing action produces two
// statistics entries per transfer.
func TestC12Lab(t *testing.T) {
	l := lab(t)
	w := l.W
	rec := kit.NewRecorder(t, "C12")
	opt := kit.HistOpt{
		MinSteps: 4, MaxSteps: maxSteps() + 10,
		PacketW: 85, AdminW: 10, EnvW: 5,
		Packet: func(rt *rapid.T) kit.Transfer {
			tr := genC06(rt, l).Transfer
			if tr.AmountInt().Cmp(maxC12Huge) > 0 {
				rec.Exclude("amount above 2^248 (statistics are 256-bit by type)")
				tr.Amount, tr.Actions = "1000000", nil
			}
			if kit.Chance(rt, "garbage", 10) {
				m := pick(rt, "garbage/memo", []string{"", "{}", `{"orbiter":{}}`, "not json"})
				tr.RawMemo = &m
			}
			return tr
		},
		Admin: kit.AdminOpt{ForeignSignerPct: 10, InvalidPct: 10},
		Env:   kit.EnvOpt{Kinds: []string{"reescrow", "ftf_pause", "ftf_unpause", "burn_limit", "next_block", "send_disable", "send_enable", "exec_mode"}},
	}
	rapid.Check(t, func(rt *rapid.T) {
		c := caseHistory{History: kit.GenHistory(rt, opt)}
		rec.Eval()
		if err := runC12On(w, l, c, rec); err != nil {
			rec.Fail(rt, c, "%v", err)
		}
	})
	rec.Require("transfer", "success with a denomination change (two entries)", 30)
}

func init() {
	kit.RegisterReplay("TestC12Lab", func(raw json.RawMessage) error {
		c, err := decode[caseHistory](raw)
		if err != nil {
			return fmt.Errorf("harness: %w", err)
		}
		if labW == nil {
			if labW, labErr = world.NewLab(prodW); labErr != nil {
				return fmt.Errorf("harness: %w", labErr)
			}
		}
		return runC12On(prodW, labW, c, nil)
	})
	kit.RegisterReplay("TestC12History", func(raw json.RawMessage) error {
		c, err := decode[caseHistory](raw)
		if err != nil {
			return fmt.Errorf("harness: %w", err)
		}
		return runC12(prodW, c, nil)
	})
}
