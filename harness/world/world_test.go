package world

import (
	"testing"
	"time"
)

func TestNewWorld(t *testing.T) {
	t0 := time.Now()
	w, err := New(Options{})
	if err != nil {
		t.Fatal(err)
	}
	t.Logf("world built in %v; tokens=%x", time.Since(t0), w.HypToken)
}
