package world

import (
	"fmt"
	"math/rand"
	"time"

	abci "github.com/cometbft/cometbft/abci/types"
	cmtproto "github.com/cometbft/cometbft/proto/tendermint/types"

	"github.com/cosmos/cosmos-sdk/client"
	"github.com/cosmos/cosmos-sdk/codec"
	"github.com/cosmos/cosmos-sdk/crypto/hd"
	cryptotypes "github.com/cosmos/cosmos-sdk/crypto/types"
	"github.com/cosmos/cosmos-sdk/testutil/sims"
	sdk "github.com/cosmos/cosmos-sdk/types"
	authtx "github.com/cosmos/cosmos-sdk/x/auth/tx"
)

// Real transactions: the authority's key is derived from the mnemonic documented next to the
// authority address in simapp/app.yaml, so that admin messages can be delivered as signed
// transactions through FinalizeBlock. This cross-validates the three-line emulation of baseapp's
// per-transaction atomicity used by Tx (DESIGN.md §2.4).

const authorityMnemonic = "occur subway woman achieve deputy rapid museum point usual appear oil blue rate title claw debate flag gallery level object baby winner erase carbon"

func AuthorityKey() (cryptotypes.PrivKey, error) {
	bz, err := hd.Secp256k1.Derive()(authorityMnemonic, "", "m/44'/118'/0'/0/0")
	if err != nil {
		return nil, err
	}
	priv := hd.Secp256k1.Generate()(bz)
	if got := sdk.AccAddress(priv.PubKey().Address()).String(); got != Authority {
		return nil, fmt.Errorf("the documented mnemonic derives %s, not the authority %s", got, Authority)
	}
	return priv, nil
}

func (w *World) TxConfig() client.TxConfig {
	return authtx.NewTxConfig(codec.NewProtoCodec(w.Cdc.InterfaceRegistry()), authtx.DefaultSignModes)
}

// TxOutcome of one delivered transaction.
type TxOutcome struct {
	Code uint32
	Log  string
}

// DeliverBlock delivers one block whose transactions each carry the given messages, all signed by
// the authority key, through FinalizeBlock + Commit on this world's application (which therefore
// must not be shared with branch-based checks).
func (w *World) DeliverBlock(txs [][]sdk.Msg) ([]TxOutcome, error) {
	priv, err := AuthorityKey()
	if err != nil {
		return nil, err
	}
	height := w.App.LastBlockHeight() + 1
	ctx := w.App.NewUncachedContext(false, cmtproto.Header{ChainID: ChainID, Height: height})
	acc := w.App.AccountKeeper.GetAccount(ctx, sdk.AccAddress(priv.PubKey().Address()))
	if acc == nil {
		return nil, fmt.Errorf("the authority account does not exist in this world's genesis")
	}
	cfg := w.TxConfig()
	seq := acc.GetSequence()
	var raw [][]byte
	for _, msgs := range txs {
		tx, err := sims.GenSignedMockTx(rand.New(rand.NewSource(1)), cfg, msgs, sdk.Coins{}, 5_000_000, ChainID,
			[]uint64{acc.GetAccountNumber()}, []uint64{seq}, priv)
		if err != nil {
			return nil, err
		}
		bz, err := cfg.TxEncoder()(tx)
		if err != nil {
			return nil, err
		}
		raw = append(raw, bz)
		seq++
	}
	res, err := w.App.FinalizeBlock(&abci.RequestFinalizeBlock{
		Height: height, Time: time.Date(2025, 1, 1, 0, 0, 0, 0, time.UTC).Add(time.Duration(height) * 6 * time.Second),
		Hash: w.App.LastCommitID().Hash, Txs: raw,
	})
	if err != nil {
		return nil, err
	}
	if _, err := w.App.Commit(); err != nil {
		return nil, err
	}
	out := make([]TxOutcome, len(res.TxResults))
	for i, r := range res.TxResults {
		out[i] = TxOutcome{Code: r.Code, Log: r.Log}
	}
	// the committed state is the new root
	w.root = w.App.NewUncachedContext(false, cmtproto.Header{ChainID: ChainID, Height: height + 1, Time: time.Date(2025, 1, 1, 0, 0, 0, 0, time.UTC).Add(time.Duration(height+1) * 6 * time.Second)})
	return out, nil
}
