package world

import (
	"bytes"
	"crypto/sha256"
	"encoding/hex"
	"encoding/json"
	"fmt"
	"math/big"
	"runtime/debug"
	"sort"

	abci "github.com/cometbft/cometbft/abci/types"

	storetypes "cosmossdk.io/store/types"
	sdk "github.com/cosmos/cosmos-sdk/types"
	transfertypes "github.com/cosmos/ibc-go/v8/modules/apps/transfer/types"
	clienttypes "github.com/cosmos/ibc-go/v8/modules/core/02-client/types"
	channeltypes "github.com/cosmos/ibc-go/v8/modules/core/04-channel/types"
	porttypes "github.com/cosmos/ibc-go/v8/modules/core/05-port/types"
	ibcexported "github.com/cosmos/ibc-go/v8/modules/core/exported"
)

// Outcome of delivering one packet.
type Outcome struct {
	Panic      any
	PanicStack string
	Ack        ibcexported.Acknowledgement
	AckBytes   []byte
	Success    bool
	// Events emitted by the callback (in the callback's own branch, before IBC core's
	// success/error post-processing).
	Events []abci.Event
}

func (o Outcome) Panicked() bool { return o.Panic != nil }

// ErrorAck reports whether the outcome is a well-formed error acknowledgement.
func (o Outcome) ErrorAck() bool {
	if o.Panicked() || o.Ack == nil || o.Success {
		return false
	}
	var a channeltypes.Acknowledgement
	if err := transfertypes.ModuleCdc.UnmarshalJSON(o.AckBytes, &a); err != nil {
		return false
	}
	_, isErr := a.Response.(*channeltypes.Acknowledgement_Error)
	return isErr
}

func (o Outcome) String() string {
	switch {
	case o.Panicked():
		return fmt.Sprintf("PANIC(%v)", o.Panic)
	case o.Ack == nil:
		return "NILACK"
	default:
		return string(o.AckBytes)
	}
}

var Relayer = Addr("relayer")

// Recv delivers a packet to the given stack on ctx with the semantics of ibc-go v8.6.1
// core/keeper/msg_server.go RecvPacket: the callback runs on a cached context that is written only
// when the acknowledgement is nil or successful. A panic is caught and reported (IBC core would
// let it abort the whole transaction); nothing is written in that case.
func Recv(ctx sdk.Context, stack porttypes.IBCModule, packet channeltypes.Packet) (out Outcome) {
	cacheCtx, write := ctx.CacheContext()
	cacheCtx = cacheCtx.WithEventManager(sdk.NewEventManager())
	func() {
		defer func() {
			if r := recover(); r != nil {
				out.Panic = r
				out.PanicStack = string(debug.Stack())
			}
		}()
		out.Ack = stack.OnRecvPacket(cacheCtx, packet, Relayer)
	}()
	if out.Panicked() {
		return out
	}
	out.Events = cacheCtx.EventManager().ABCIEvents()
	if out.Ack == nil {
		write()
		return out
	}
	func() {
		defer func() {
			if r := recover(); r != nil {
				out.Panic = r
				out.PanicStack = string(debug.Stack())
			}
		}()
		out.Success = out.Ack.Success()
		out.AckBytes = out.Ack.Acknowledgement()
	}()
	if out.Panicked() {
		return out
	}
	if out.Success {
		write()
	}
	return out
}

// TxResult of one admin message.
type TxResult struct {
	Err    error
	Panic  any
	Events []abci.Event
	Result *sdk.Result
}

func (r TxResult) OK() bool { return r.Err == nil && r.Panic == nil }

// Tx runs one message through the application's message router with baseapp's per-transaction
// atomicity: the writes are kept only if the handler returns no error.
func (w *World) Tx(ctx sdk.Context, msg sdk.Msg) (res TxResult) {
	cacheCtx, write := ctx.CacheContext()
	cacheCtx = cacheCtx.WithEventManager(sdk.NewEventManager())
	h := w.App.MsgServiceRouter().Handler(msg)
	if h == nil {
		res.Err = fmt.Errorf("no handler registered for %s", sdk.MsgTypeURL(msg))
		return res
	}
	func() {
		defer func() {
			if r := recover(); r != nil {
				res.Panic = r
				res.Err = fmt.Errorf("panic: %v", r)
			}
		}()
		res.Result, res.Err = h(cacheCtx, msg)
	}()
	if res.Err == nil {
		write()
		if res.Result != nil {
			res.Events = res.Result.Events
		}
	}
	return res
}

// MustTx is for environment steps that are valid by construction.
func (w *World) MustTx(ctx sdk.Context, msg sdk.Msg) {
	if r := w.Tx(ctx, msg); !r.OK() {
		panic(fmt.Sprintf("harness: environment message %T failed: %v", msg, r.Err))
	}
}

// Packet builds an incoming ICS-20 packet on Noble channel number ch.
func Packet(ch int, seq uint64, data []byte) channeltypes.Packet {
	return channeltypes.Packet{
		Sequence:           seq,
		SourcePort:         CounterpartyPort,
		SourceChannel:      CounterpartyChannel(ch),
		DestinationPort:    transfertypes.PortID,
		DestinationChannel: NobleChannel(ch),
		Data:               data,
		TimeoutHeight:      clienttypes.NewHeight(1, 1_000_000),
	}
}

// FTData is the ICS-20 v1 packet data as JSON, with field order fixed by the harness.
type FTData struct {
	Denom    string `json:"denom"`
	Amount   string `json:"amount"`
	Sender   string `json:"sender"`
	Receiver string `json:"receiver"`
	Memo     string `json:"memo,omitempty"`
}

func (d FTData) Bytes() []byte {
	bz, err := json.Marshal(d)
	if err != nil {
		panic(err)
	}
	return bz
}

// ForeignSender is a bech32-valid address on the sending chain (blockibc decodes the sender).
const ForeignSender = "cosmos1wnlew8ss0sqclfalvj6jkcyvnwq79fd74qxxue"

// ReturnDenom is the denom string a counterparty uses for a Noble-native denom it received over
// channel ch and now sends back.
func ReturnDenom(ch int, denom string) string {
	return CounterpartyPort + "/" + CounterpartyChannel(ch) + "/" + denom
}

// ---------------------------------------------------------------------------------------------
// Observations

// Ledger is every (address, denom) balance plus total supply (address "supply").
type Ledger map[string]*big.Int

func key(addr, denom string) string { return addr + "|" + denom }

func (w *World) Ledger(ctx sdk.Context) Ledger {
	l := Ledger{}
	w.App.BankKeeper.IterateAllBalances(ctx, func(addr sdk.AccAddress, c sdk.Coin) bool {
		l[key(addr.String(), c.Denom)] = c.Amount.BigInt()
		return false
	})
	w.App.BankKeeper.IterateTotalSupply(ctx, func(c sdk.Coin) bool {
		l[key("supply", c.Denom)] = c.Amount.BigInt()
		return false
	})
	return l
}

// Delta is the map of non-zero balance changes, keyed like Ledger.
type Delta map[string]*big.Int

func Diff(before, after Ledger) Delta {
	d := Delta{}
	for k, a := range after {
		b, ok := before[k]
		if !ok {
			b = new(big.Int)
		}
		if x := new(big.Int).Sub(a, b); x.Sign() != 0 {
			d[k] = x
		}
	}
	for k, b := range before {
		if _, ok := after[k]; !ok && b.Sign() != 0 {
			d[k] = new(big.Int).Neg(b)
		}
	}
	return d
}

func (d Delta) Add(addr, denom string, amt *big.Int) {
	k := key(addr, denom)
	cur, ok := d[k]
	if !ok {
		cur = new(big.Int)
	}
	cur = new(big.Int).Add(cur, amt)
	if cur.Sign() == 0 {
		delete(d, k)
	} else {
		d[k] = cur
	}
}

func (d Delta) Get(addr, denom string) *big.Int {
	if v, ok := d[key(addr, denom)]; ok {
		return v
	}
	return new(big.Int)
}

func (d Delta) Equal(o Delta) bool {
	if len(d) != len(o) {
		return false
	}
	for k, v := range d {
		ov, ok := o[k]
		if !ok || v.Cmp(ov) != 0 {
			return false
		}
	}
	return true
}

func (d Delta) String() string {
	keys := make([]string, 0, len(d))
	for k := range d {
		keys = append(keys, k)
	}
	sort.Strings(keys)
	var b bytes.Buffer
	b.WriteString("{")
	for i, k := range keys {
		if i > 0 {
			b.WriteString(", ")
		}
		fmt.Fprintf(&b, "%s: %s", k, d[k].String())
	}
	b.WriteString("}")
	return b.String()
}

// Without returns a copy of the delta with every entry of the given addresses removed.
func (d Delta) Without(addrs ...string) Delta {
	out := Delta{}
outer:
	for k, v := range d {
		for _, a := range addrs {
			if len(k) > len(a) && k[:len(a)] == a && k[len(a)] == '|' {
				continue outer
			}
		}
		out[k] = v
	}
	return out
}

func (l Ledger) Get(addr, denom string) *big.Int {
	if v, ok := l[key(addr, denom)]; ok {
		return v
	}
	return new(big.Int)
}

// Balance reads one balance directly.
func (w *World) Balance(ctx sdk.Context, addr sdk.AccAddress, denom string) *big.Int {
	return w.App.BankKeeper.GetBalance(ctx, addr, denom).Amount.BigInt()
}

// StoreDigests returns one SHA-256 per mounted KV store over all its (key, value) pairs.
func (w *World) StoreDigests(ctx sdk.Context) map[string]string {
	out := map[string]string{}
	for _, k := range w.App.GetStoreKeys() {
		kv, ok := k.(*storetypes.KVStoreKey)
		if !ok {
			continue
		}
		h := sha256.New()
		it := ctx.KVStore(kv).Iterator(nil, nil)
		var lenbuf [8]byte
		for ; it.Valid(); it.Next() {
			kk, vv := it.Key(), it.Value()
			putLen(&lenbuf, len(kk))
			h.Write(lenbuf[:])
			h.Write(kk)
			putLen(&lenbuf, len(vv))
			h.Write(lenbuf[:])
			h.Write(vv)
		}
		it.Close()
		out[kv.Name()] = hex.EncodeToString(h.Sum(nil))
	}
	return out
}

func putLen(b *[8]byte, n int) {
	for i := 0; i < 8; i++ {
		b[i] = byte(n >> (8 * i))
	}
}

// StoreDigest is one digest over all stores.
func (w *World) StoreDigest(ctx sdk.Context) string {
	m := w.StoreDigests(ctx)
	names := make([]string, 0, len(m))
	for n := range m {
		names = append(names, n)
	}
	sort.Strings(names)
	h := sha256.New()
	for _, n := range names {
		h.Write([]byte(n))
		h.Write([]byte(m[n]))
	}
	return hex.EncodeToString(h.Sum(nil))
}

// DiffStores lists the stores whose digests differ.
func DiffStores(a, b map[string]string) []string {
	var out []string
	for n, d := range a {
		if b[n] != d {
			out = append(out, n)
		}
	}
	for n := range b {
		if _, ok := a[n]; !ok {
			out = append(out, n)
		}
	}
	sort.Strings(out)
	return out
}

// OrbiterGenesis exports the module's state as JSON.
func (w *World) OrbiterGenesis(ctx sdk.Context) json.RawMessage {
	g := w.App.OrbiterKeeper.ExportGenesis(ctx)
	return w.Cdc.MustMarshalJSON(g)
}

// EventsDigest hashes an ABCI event list in order.
func EventsDigest(evs []abci.Event) string {
	h := sha256.New()
	for _, e := range evs {
		bz, err := e.Marshal()
		if err != nil {
			panic(err)
		}
		var lenbuf [8]byte
		putLen(&lenbuf, len(bz))
		h.Write(lenbuf[:])
		h.Write(bz)
	}
	return hex.EncodeToString(h.Sum(nil))
}

// Query sends a request through the application's registered gRPC query router (the same route
// an ABCI query takes), e.g. "/noble.orbiter.component.forwarder.v1.Query/PausedCrossChains".
func (w *World) Query(ctx sdk.Context, path string, req interface{ Marshal() ([]byte, error) }, resp interface{ Unmarshal([]byte) error }) (err error) {
	h := w.App.GRPCQueryRouter().Route(path)
	if h == nil {
		return fmt.Errorf("harness: no query handler registered for %s", path)
	}
	bz, err := req.Marshal()
	if err != nil {
		return fmt.Errorf("harness: %w", err)
	}
	defer func() {
		if r := recover(); r != nil {
			err = fmt.Errorf("query %s panicked: %v", path, r)
		}
	}()
	// Queries run on their own branch with a fresh event manager, as baseapp runs them.
	qctx, _ := ctx.CacheContext()
	res, err := h(qctx.WithEventManager(sdk.NewEventManager()), &abci.RequestQuery{Data: bz, Path: path})
	if err != nil {
		return err
	}
	return resp.Unmarshal(res.Value)
}
