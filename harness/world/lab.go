package world

import (
	"context"
	"errors"
	"fmt"
	"reflect"

	warpkeeper "github.com/bcp-innovations/hyperlane-cosmos/x/warp/keeper"
	warptypes "github.com/bcp-innovations/hyperlane-cosmos/x/warp/types"
	cctpkeeper "github.com/circlefin/noble-cctp/x/cctp/keeper"
	cctptypes "github.com/circlefin/noble-cctp/x/cctp/types"
	"github.com/circlefin/noble-fiattokenfactory/x/blockibc"
	"google.golang.org/protobuf/runtime/protoiface"

	"cosmossdk.io/core/event"
	"cosmossdk.io/log"
	sdkmath "cosmossdk.io/math"
	addresscodec "github.com/cosmos/cosmos-sdk/codec/address"
	"github.com/cosmos/cosmos-sdk/runtime"
	sdk "github.com/cosmos/cosmos-sdk/types"
	bankkeeper "github.com/cosmos/cosmos-sdk/x/bank/keeper"
	banktypes "github.com/cosmos/cosmos-sdk/x/bank/types"
	"github.com/cosmos/ibc-go/v8/modules/apps/transfer"
	transfertypes "github.com/cosmos/ibc-go/v8/modules/apps/transfer/types"
	channeltypes "github.com/cosmos/ibc-go/v8/modules/core/04-channel/types"
	porttypes "github.com/cosmos/ibc-go/v8/modules/core/05-port/types"
	ibcexported "github.com/cosmos/ibc-go/v8/modules/core/exported"

	"github.com/noble-assets/orbiter/v2/controller"
	actionctrl "github.com/noble-assets/orbiter/v2/controller/action"
	adapterctrl "github.com/noble-assets/orbiter/v2/controller/adapter"
	forwardingctrl "github.com/noble-assets/orbiter/v2/controller/forwarding"
	"github.com/noble-assets/orbiter/v2/entrypoint"
	"github.com/noble-assets/orbiter/v2/keeper"
	orbitertypes "github.com/noble-assets/orbiter/v2/types"
	forwardingtypes "github.com/noble-assets/orbiter/v2/types/controller/forwarding"
	"github.com/noble-assets/orbiter/v2/types/core"
)

// LAB world (DESIGN.md §2.2): a second orbiter keeper built only from public constructors over
// the same store key and the same real bank / CCTP / warp keepers, with every dependency wrapped
// so that each call is recorded and can be made to fail on demand, plus a denomination-changing
// test controller registered under ACTION_SWAP.

const SwapDenom = "uswapped"

var (
	SwapPoolAddr = Addr("swap-pool")
	ErrInjected  = errors.New("injected fault")
)

// Call is one recorded call of a wrapped dependency.
type Call struct {
	Site string // "sweep", "ics20", "fee-send", "swap", "emit:<type>", "hyp-token-query", "cctp", "cctp-caller", "hyp-remote-transfer", "bank-send", "cctp-replace"
	Req  any
	Err  error
	// Faulted is true when the harness made this call fail.
	Faulted bool
}

// InjectedPanic is the value a wrapped dependency panics with when the fault plan says so.
type InjectedPanic struct{ Site string }

func (p InjectedPanic) String() string { return "injected panic at " + p.Site }

// Session is the per-case recording and fault plan.
type Session struct {
	Calls []Call
	// Fail holds the indices (into the sequence of calls of this case) that must fail by
	// returning an error before doing anything.
	Fail map[int]bool
	// PanicBefore / PanicAfter hold the indices of calls that must fail by PANICKING, before the
	// real call or after it has completed (its effects are then in the state branch).
	PanicBefore map[int]bool
	PanicAfter  map[int]bool
}

func (s *Session) Sites() []string {
	out := make([]string, len(s.Calls))
	for i, c := range s.Calls {
		out[i] = c.Site
	}
	return out
}

type Lab struct {
	W       *World
	Keeper  *keeper.Keeper
	Stack   porttypes.IBCModule
	session *Session
}

// Begin starts a fresh session (recording, optional fault plan) for the next case.
func (l *Lab) Begin(fail ...int) *Session {
	s := &Session{Fail: map[int]bool{}, PanicBefore: map[int]bool{}, PanicAfter: map[int]bool{}}
	for _, i := range fail {
		s.Fail[i] = true
	}
	l.session = s
	return s
}

// BeginPanic starts a session in which call number i panics (before or after the real call).
func (l *Lab) BeginPanic(i int, after bool) *Session {
	s := l.Begin()
	if after {
		s.PanicAfter[i] = true
	} else {
		s.PanicBefore[i] = true
	}
	return s
}

// enter records a call and reports whether it must fail.
func (l *Lab) enter(site string, req any) (idx int, fail bool) {
	s := l.session
	if s == nil {
		return -1, false
	}
	idx = len(s.Calls)
	fail = s.Fail[idx]
	s.Calls = append(s.Calls, Call{Site: site, Req: req, Faulted: fail || s.PanicBefore[idx] || s.PanicAfter[idx]})
	if s.PanicBefore[idx] {
		s.Calls[idx].Err = ErrInjected
		panic(InjectedPanic{site})
	}
	return idx, fail
}

func (l *Lab) leave(idx int, err error) {
	if l.session != nil && idx >= 0 {
		l.session.Calls[idx].Err = err
		if err == nil && l.session.PanicAfter[idx] {
			l.session.Calls[idx].Err = ErrInjected
			panic(InjectedPanic{l.session.Calls[idx].Site})
		}
	}
}

// --- wrappers ---------------------------------------------------------------------------------

// The wrappers EMBED the real keeper / server, so that a method the repository adds to one of its
// expected-keeper interfaces later is served by the real implementation (unrecorded) instead of
// breaking the harness build; the calls the harness knows about are recorded and can be failed.
type labBank struct {
	bankkeeper.Keeper
	l *Lab
}

func (b labBank) SendCoinsFromModuleToModule(ctx context.Context, from, to string, amt sdk.Coins) error {
	idx, fail := b.l.enter("sweep", fmt.Sprintf("%s->%s %s", from, to, amt))
	if fail {
		b.l.leave(idx, ErrInjected)
		return ErrInjected
	}
	err := b.Keeper.SendCoinsFromModuleToModule(ctx, from, to, amt)
	b.l.leave(idx, err)
	return err
}

type labFeeBank struct {
	bankkeeper.Keeper
	l *Lab
}

func (b labFeeBank) SendCoins(ctx context.Context, from, to sdk.AccAddress, amt sdk.Coins) error {
	idx, fail := b.l.enter("fee-send", &banktypes.MsgSend{FromAddress: from.String(), ToAddress: to.String(), Amount: amt})
	if fail {
		b.l.leave(idx, ErrInjected)
		return ErrInjected
	}
	err := b.Keeper.SendCoins(ctx, from, to, amt)
	b.l.leave(idx, err)
	return err
}

type labEvents struct{ l *Lab }

func (e labEvents) EventManager(ctx context.Context) event.Manager {
	return labEventManager{l: e.l, real: runtime.EventService{}.EventManager(ctx)}
}

type labEventManager struct {
	l    *Lab
	real event.Manager
}

func (m labEventManager) Emit(ctx context.Context, ev protoiface.MessageV1) error {
	name := reflect.TypeOf(ev).String()
	idx, fail := m.l.enter("emit:"+name, nil)
	if fail {
		m.l.leave(idx, ErrInjected)
		return ErrInjected
	}
	err := m.real.Emit(ctx, ev)
	m.l.leave(idx, err)
	return err
}

func (m labEventManager) EmitKV(ctx context.Context, t string, attrs ...event.Attribute) error {
	return m.real.EmitKV(ctx, t, attrs...)
}

func (m labEventManager) EmitNonConsensus(ctx context.Context, ev protoiface.MessageV1) error {
	return m.real.EmitNonConsensus(ctx, ev)
}

type labCCTP struct {
	cctptypes.MsgServer
	l *Lab
}

func (c labCCTP) DepositForBurn(ctx context.Context, msg *cctptypes.MsgDepositForBurn) (*cctptypes.MsgDepositForBurnResponse, error) {
	cp := *msg
	idx, fail := c.l.enter("cctp", &cp)
	if fail {
		c.l.leave(idx, ErrInjected)
		return nil, ErrInjected
	}
	r, err := c.MsgServer.DepositForBurn(ctx, msg)
	c.l.leave(idx, err)
	return r, err
}

func (c labCCTP) DepositForBurnWithCaller(ctx context.Context, msg *cctptypes.MsgDepositForBurnWithCaller) (*cctptypes.MsgDepositForBurnWithCallerResponse, error) {
	cp := *msg
	idx, fail := c.l.enter("cctp-caller", &cp)
	if fail {
		c.l.leave(idx, ErrInjected)
		return nil, ErrInjected
	}
	r, err := c.MsgServer.DepositForBurnWithCaller(ctx, msg)
	c.l.leave(idx, err)
	return r, err
}

func (c labCCTP) ReplaceDepositForBurn(ctx context.Context, msg *cctptypes.MsgReplaceDepositForBurn) (*cctptypes.MsgReplaceDepositForBurnResponse, error) {
	cp := *msg
	idx, fail := c.l.enter("cctp-replace", &cp)
	if fail {
		c.l.leave(idx, ErrInjected)
		return nil, ErrInjected
	}
	r, err := c.MsgServer.ReplaceDepositForBurn(ctx, msg)
	c.l.leave(idx, err)
	return r, err
}

type labHyp struct {
	warptypes.MsgServer
	warptypes.QueryServer
	l *Lab
}

func (h labHyp) RemoteTransfer(ctx context.Context, msg *warptypes.MsgRemoteTransfer) (*warptypes.MsgRemoteTransferResponse, error) {
	cp := *msg
	idx, fail := h.l.enter("hyp-remote-transfer", &cp)
	if fail {
		h.l.leave(idx, ErrInjected)
		return nil, ErrInjected
	}
	r, err := h.MsgServer.RemoteTransfer(ctx, msg)
	h.l.leave(idx, err)
	return r, err
}

func (h labHyp) Token(ctx context.Context, req *warptypes.QueryTokenRequest) (*warptypes.QueryTokenResponse, error) {
	cp := *req
	idx, fail := h.l.enter("hyp-token-query", &cp)
	if fail {
		h.l.leave(idx, ErrInjected)
		return nil, ErrInjected
	}
	r, err := h.QueryServer.Token(ctx, req)
	h.l.leave(idx, err)
	return r, err
}

type labBankMsg struct {
	banktypes.MsgServer
	l *Lab
}

func (b labBankMsg) Send(ctx context.Context, msg *banktypes.MsgSend) (*banktypes.MsgSendResponse, error) {
	cp := *msg
	idx, fail := b.l.enter("bank-send", &cp)
	if fail {
		b.l.leave(idx, ErrInjected)
		return nil, ErrInjected
	}
	r, err := b.MsgServer.Send(ctx, msg)
	b.l.leave(idx, err)
	return r, err
}

// labApp wraps the ICS-20 application below the orbiter middleware.
type labApp struct {
	porttypes.IBCModule
	l *Lab
}

func (a labApp) OnRecvPacket(ctx sdk.Context, packet channeltypes.Packet, relayer sdk.AccAddress) ibcexported.Acknowledgement {
	idx, fail := a.l.enter("ics20", nil)
	if fail {
		a.l.leave(idx, ErrInjected)
		return channeltypes.NewErrorAcknowledgement(ErrInjected)
	}
	ack := a.IBCModule.OnRecvPacket(ctx, packet, relayer)
	if ack != nil && !ack.Success() {
		a.l.leave(idx, fmt.Errorf("error acknowledgement: %s", ack.Acknowledgement()))
	} else {
		a.l.leave(idx, nil)
	}
	return ack
}

// swapController is the harness's denomination-changing action registered under ACTION_SWAP:
// it moves the running coin to a pool account, mints floor(x*3/2) of SwapDenom to the orbiter
// account and updates the transfer attributes.
type swapController struct {
	*controller.BaseController[core.ActionID]
	l *Lab
}

func (s *swapController) HandlePacket(ctx context.Context, p *orbitertypes.ActionPacket) error {
	attr := p.TransferAttributes
	in := sdk.Coin{Denom: attr.DestinationDenom(), Amount: attr.DestinationAmount()}
	idx, fail := s.l.enter("swap", in.String())
	if fail {
		s.l.leave(idx, ErrInjected)
		return ErrInjected
	}
	err := s.do(ctx, attr, in)
	s.l.leave(idx, err)
	return err
}

func (s *swapController) do(ctx context.Context, attr *core.TransferAttributes, in sdk.Coin) error {
	bank := s.l.W.App.BankKeeper
	outAmt, err := in.Amount.SafeMul(sdkmath.NewInt(3))
	if err != nil {
		return err
	}
	out := sdk.Coin{Denom: SwapDenom, Amount: outAmt.QuoRaw(2)}
	if err := bank.SendCoins(ctx, OrbiterAddr, SwapPoolAddr, sdk.Coins{in}); err != nil {
		return err
	}
	if err := bank.MintCoins(ctx, transfertypes.ModuleName, sdk.Coins{out}); err != nil {
		return err
	}
	if err := bank.SendCoinsFromModuleToAccount(ctx, transfertypes.ModuleName, OrbiterAddr, sdk.Coins{out}); err != nil {
		return err
	}
	attr.SetDestinationDenom(SwapDenom)
	attr.SetDestinationAmount(out.Amount)
	return nil
}

// NewLab builds the LAB keeper and stack on top of a world.
func NewLab(w *World) (lab *Lab, err error) {
	defer func() {
		if r := recover(); r != nil {
			err = fmt.Errorf("building the LAB world panicked: %v", r)
		}
	}()
	l := &Lab{W: w}
	app := w.App
	k := keeper.NewKeeper(
		w.Cdc,
		addresscodec.NewBech32Codec("noble"),
		log.NewNopLogger(),
		labEvents{l},
		runtime.NewKVStoreService(app.GetKey(core.ModuleName)),
		Authority,
		labBank{app.BankKeeper, l},
	)
	l.Keeper = k

	fee, err := actionctrl.NewFeeController(k.Executor().Logger(), k.Executor().EventService(), labFeeBank{app.BankKeeper, l})
	if err != nil {
		return nil, err
	}
	base, err := controller.NewBase(core.ACTION_SWAP)
	if err != nil {
		return nil, err
	}
	if err := k.SetActionControllers(fee, &swapController{BaseController: base, l: l}); err != nil {
		return nil, err
	}

	cctp, err := forwardingctrl.NewCCTPController(k.Forwarder().Logger(), labCCTP{cctpkeeper.NewMsgServerImpl(app.CCTPKeeper), l})
	if err != nil {
		return nil, err
	}
	hyp, err := forwardingctrl.NewHyperlaneController(k.Forwarder().Logger(),
		labHyp{warpkeeper.NewMsgServerImpl(app.WarpKeeper), warpkeeper.NewQueryServerImpl(app.WarpKeeper), l})
	if err != nil {
		return nil, err
	}
	internal, err := forwardingctrl.NewInternalController(k.Forwarder().Logger(), labBankMsg{bankkeeper.NewMsgServerImpl(app.BankKeeper), l})
	if err != nil {
		return nil, err
	}
	if err := k.SetForwardingControllers(cctp, hyp, internal); err != nil {
		return nil, err
	}

	ibc, err := adapterctrl.NewIBCAdapter(k.Codec(), k.Adapter().Logger())
	if err != nil {
		return nil, err
	}
	if err := k.SetAdapterControllers(ibc); err != nil {
		return nil, err
	}

	var stack porttypes.IBCModule = labApp{IBCModule: transfer.NewIBCModule(app.TransferKeeper), l: l}
	stack = entrypoint.NewIBCMiddleware(stack, app.IBCKeeper.ChannelKeeper, k.Adapter())
	stack = blockibc.NewIBCMiddleware(stack, app.FTFKeeper)
	l.Stack = stack
	return l, nil
}

var _ forwardingtypes.HyperlaneHandler = labHyp{}
