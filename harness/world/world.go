// Package world builds the system under test: the real SimApp of noble-assets/orbiter on a MemDB
// with a harness genesis, and the step functions (packet delivery, admin transaction) that
// reproduce the host semantics orbiter relies on. See DESIGN.md §2.
package world

import (
	"bytes"
	"crypto/ecdsa"
	"crypto/sha256"
	"encoding/hex"
	"encoding/json"
	"fmt"
	"math/big"
	"sync"
	"time"

	hyputil "github.com/bcp-innovations/hyperlane-cosmos/util"
	ismtypes "github.com/bcp-innovations/hyperlane-cosmos/x/core/01_interchain_security/types"
	pdtypes "github.com/bcp-innovations/hyperlane-cosmos/x/core/02_post_dispatch/types"
	hypcoretypes "github.com/bcp-innovations/hyperlane-cosmos/x/core/types"
	warptypes "github.com/bcp-innovations/hyperlane-cosmos/x/warp/types"
	cctptypes "github.com/circlefin/noble-cctp/x/cctp/types"
	"github.com/circlefin/noble-fiattokenfactory/x/blockibc"
	ftftypes "github.com/circlefin/noble-fiattokenfactory/x/fiattokenfactory/types"
	abci "github.com/cometbft/cometbft/abci/types"
	cmted25519 "github.com/cometbft/cometbft/crypto/ed25519"
	cmtproto "github.com/cometbft/cometbft/proto/tendermint/types"
	cmttypes "github.com/cometbft/cometbft/types"
	ethcrypto "github.com/ethereum/go-ethereum/crypto"

	"cosmossdk.io/log"
	sdkmath "cosmossdk.io/math"
	dbm "github.com/cosmos/cosmos-db"
	"github.com/cosmos/cosmos-sdk/baseapp"
	"github.com/cosmos/cosmos-sdk/codec"
	"github.com/cosmos/cosmos-sdk/testutil/sims"
	sdk "github.com/cosmos/cosmos-sdk/types"
	authtypes "github.com/cosmos/cosmos-sdk/x/auth/types"
	banktypes "github.com/cosmos/cosmos-sdk/x/bank/types"
	"github.com/cosmos/ibc-go/v8/modules/apps/transfer"
	transfertypes "github.com/cosmos/ibc-go/v8/modules/apps/transfer/types"
	porttypes "github.com/cosmos/ibc-go/v8/modules/core/05-port/types"

	"github.com/noble-assets/orbiter/v2/simapp"
	forwardingtypes "github.com/noble-assets/orbiter/v2/types/controller/forwarding"
	"github.com/noble-assets/orbiter/v2/types/core"
)

const (
	ChainID   = "orbiter-1"
	Authority = "noble1zw7vatnx0vla7gzxucgypz0kfr6965akpvzw69" // simapp/app.yaml

	Uusdc = "uusdc"
	Ufoo  = "ufoo"
	Gamm  = "gamm/pool/1"
	Uhuge = "uhuge"
	// A valid bank denom that looks like an ICS-20 trace prefix.
	Tricky = "transfer/channel-3"
	// A Noble-side voucher (an asset that reached Noble over IBC and was sent out again).
	IBCVoucher = "ibc/27394FB092D2ECCD56123C74F36E4C1F926001CEADA9CA97EA622B25F41E5EB2"
	// SwapDenomUpper differs from the output denomination of the LAB world's swap controller
	// ("uswapped") only by letter case: bank denominations are case sensitive.
	SwapDenomUpper = "USWAPPED"
	// OddDenom uses every character class a bank denomination may contain besides '/'.
	OddDenom = "A0:b.c_d-E"
	// LongDenom has the maximum length of a bank denomination (128).
	LongDenom = "uxxxxxxxxxxxxxxxxxxxxxxxxxxxxxxxxxxxxxxxxxxxxxxxxxxxxxxxxxxxxxxxxxxxxxxxxxxxxxxxxxxxxxxxxxxxxxxxxxxxxxxxxxxxxxxxxxxxxxxxxxxxxxxx"

	NumChannels      = 4
	CounterpartyPort = "transfer"
	BurnLimit        = 1_000_000_000
	EscrowSmall      = 1_000_000_000_000_000 // 10^15 of every ordinary denom per escrow
)

var (
	// MaxUint256 is 2^256-1, the largest value of sdk math.Int.
	MaxUint256 = new(big.Int).Sub(new(big.Int).Lsh(big.NewInt(1), 256), big.NewInt(1))

	CCTPDomains = []uint32{0, 1, 2, 3, 5}
	HypDomains  = []uint32{1, 2, 7}
	// Denominations that have a Hyperlane collateral token.
	HypDenoms = []string{Uusdc, Ufoo, Uhuge}
	// All denominations held by the channel escrows.
	EscrowDenoms = []string{Uusdc, Ufoo, Gamm, Tricky, IBCVoucher, OddDenom, LongDenom, SwapDenomUpper}

	OrbiterAddr = core.ModuleAddress
	DustAddr    = authtypes.NewModuleAddress(core.DustCollectorName)
	WarpAddr    = authtypes.NewModuleAddress(warptypes.ModuleName)
	CCTPAddr    = cctptypes.ModuleAddress
	FTFAddr     = authtypes.NewModuleAddress(ftftypes.ModuleName)
	// BlockedPoolAddr is the staking module's bonded pool: blocked in simapp's bank configuration.
	BlockedPoolAddr = authtypes.NewModuleAddress("bonded_tokens_pool")

	UserNames = []string{"alice", "bob", "carol", "dave", "erin", "frank"}

	// SynthDenom is the denomination of the synthetic Hyperlane token of the harness environment
	// ("hyperlane/<token id>"; the id is assigned by the warp module, identically on every
	// instance). Set when the first world is built.
	SynthDenom string

	setPrefixOnce sync.Once
)

// Addr derives a harness account address from a name (never from a RNG).
func Addr(name string) sdk.AccAddress {
	return authtypes.NewModuleAddress("user/" + name)
}

// NobleChannel is the Noble-side channel identifier (packet destination channel) number i.
func NobleChannel(i int) string { return fmt.Sprintf("channel-%d", i) }

// CounterpartyChannel is the channel end on the sending chain (packet source channel).
func CounterpartyChannel(i int) string { return fmt.Sprintf("channel-%d", 7+i) }

func EscrowAddr(i int) sdk.AccAddress {
	return transfertypes.GetEscrowAddress(transfertypes.PortID, NobleChannel(i))
}

func setPrefixes() {
	setPrefixOnce.Do(func() {
		cfg := sdk.GetConfig()
		cfg.SetBech32PrefixForAccount("noble", "noblepub")
		cfg.SetBech32PrefixForValidator("noblevaloper", "noblevaloperpub")
		cfg.SetBech32PrefixForConsensusNode("noblevalcons", "noblevalconspub")
	})
}

func init() { setPrefixes() }

// World is one instance of the application plus the handles the harness needs.
type World struct {
	App  *simapp.SimApp
	Cdc  codec.Codec
	root sdk.Context

	// Stack is the transfer stack exactly as wired by the application
	// (blockibc -> orbiter middleware -> ICS-20).
	Stack porttypes.IBCModule
	// Ref is the same stack built by the harness without the orbiter middleware.
	Ref porttypes.IBCModule

	// HypToken maps a denom to the id of its Hyperlane collateral token.
	HypToken map[string][]byte
	// HypSynth is the id of a SYNTHETIC Hyperlane token (denomination SynthDenom, minted by the
	// warp module); no transfer is ever made in that denomination, its token only appears in
	// routes of OTHER denominations, which must be refused.
	HypSynth []byte
	HypHook  []byte
	// HypIGP maps a denomination to the id of an interchain gas paymaster (a post-dispatch hook
	// that CHARGES the sender: gas limit x gas price 1 x exchange rate 1 = `gas_limit` base units
	// of that denomination, for every domain of HypDomains). It is never the mailbox's default
	// or required hook: only a payload that names it as custom hook meets it.
	HypIGP map[string][]byte

	AttesterKey *ecdsa.PrivateKey
}

// Options customise a world. The zero value is the standard environment of DESIGN.md §2.3.
type Options struct {
	// OrbiterGenesis, when not nil, replaces the orbiter section of the genesis (C17).
	OrbiterGenesis json.RawMessage
	// AuthorityConfig, when not empty, replaces the `authority:` value of the orbiter module in the
	// application configuration (simapp/app.yaml) the application is built from (C10: the authority
	// may be configured by address or by module name).
	AuthorityConfig string
}

var appConfigMu sync.Mutex

// withAuthorityConfig builds the application with the orbiter module's configured authority
// replaced. The application reads the embedded YAML at construction time only.
func withAuthorityConfig(cfg string, build func() (*simapp.SimApp, error)) (*simapp.SimApp, error) {
	appConfigMu.Lock()
	defer appConfigMu.Unlock()
	orig := simapp.AppConfigYAML
	pristine := orig
	defer func() { simapp.AppConfigYAML = pristine }()
	// The harness environment enables SYNTHETIC Hyperlane tokens next to the collateral tokens
	// simapp enables (a chain may enable either; which token types exist is the external module's
	// configuration, and a route naming a token of another type is one more input the module must
	// judge).
	tokens := "        - 1 # Enable Collateral tokens"
	if n := bytes.Count(orig, []byte(tokens)); n != 1 {
		return nil, fmt.Errorf("harness: expected exactly one %q in simapp/app.yaml, found %d", tokens, n)
	}
	simapp.AppConfigYAML = bytes.Replace(orig, []byte(tokens), []byte("        - 1\n        - 2"), 1)
	if cfg == "" {
		return build()
	}
	orig = simapp.AppConfigYAML
	line := "authority: " + Authority
	if n := bytes.Count(orig, []byte(line)); n != 1 {
		return nil, fmt.Errorf("harness: expected exactly one %q in simapp/app.yaml, found %d", line, n)
	}
	quoted, err := json.Marshal(cfg) // a JSON string is a valid YAML double-quoted scalar
	if err != nil {
		return nil, err
	}
	simapp.AppConfigYAML = bytes.Replace(orig, []byte(line), []byte("authority: "+string(quoted)), 1)
	return build()
}

type emptyAppOptions struct{}

func (emptyAppOptions) Get(string) interface{} { return nil }

func attesterKey() *ecdsa.PrivateKey {
	h := sha256.Sum256([]byte("verif/attester"))
	k, err := ethcrypto.ToECDSA(h[:])
	if err != nil {
		panic(err)
	}
	return k
}

func pad32(b []byte) []byte {
	out := make([]byte, 32)
	copy(out[32-len(b):], b)
	return out
}

// New builds a fresh application instance with the harness genesis.
func New(opts Options) (*World, error) {
	setPrefixes()
	app, err := withAuthorityConfig(opts.AuthorityConfig, func() (*simapp.SimApp, error) {
		return simapp.NewSimApp(log.NewNopLogger(), dbm.NewMemDB(), nil, true, emptyAppOptions{}, baseapp.SetChainID(ChainID))
	})
	if err != nil {
		return nil, fmt.Errorf("NewSimApp: %w", err)
	}
	w := &World{App: app, Cdc: app.OrbiterKeeper.Codec(), HypToken: map[string][]byte{}, AttesterKey: attesterKey()}

	gen := app.DefaultGenesis()

	// validator + delegator
	seed := sha256.Sum256([]byte("verif/validator"))
	valPriv := cmted25519.GenPrivKeyFromSecret(seed[:])
	val := cmttypes.NewValidator(valPriv.PubKey(), 1)
	valSet := cmttypes.NewValidatorSet([]*cmttypes.Validator{val})
	delegator := authtypes.NewBaseAccount(Addr("delegator"), nil, 0, 0)
	authorityAddr, err := sdk.AccAddressFromBech32(Authority)
	if err != nil {
		return nil, err
	}
	authorityAcc := authtypes.NewBaseAccount(authorityAddr, nil, 1, 0)

	var balances []banktypes.Balance
	for i := 0; i < NumChannels; i++ {
		coins := sdk.Coins{}
		for _, d := range EscrowDenoms {
			coins = coins.Add(sdk.NewCoin(d, sdkmath.NewInt(EscrowSmall)))
		}
		if i == 0 {
			coins = coins.Add(sdk.NewCoin(Uhuge, sdkmath.NewIntFromBigInt(MaxUint256)))
		}
		balances = append(balances, banktypes.Balance{Address: EscrowAddr(i).String(), Coins: coins})
	}
	for _, n := range UserNames {
		coins := sdk.Coins{}
		for _, d := range EscrowDenoms {
			coins = coins.Add(sdk.NewCoin(d, sdkmath.NewInt(1_000_000_000_000)))
		}
		balances = append(balances, banktypes.Balance{Address: Addr(n).String(), Coins: coins})
	}
	// a holder of very large balances (an 18-decimals asset reaches 2^63 base units at ~9 tokens)
	whale := sdk.Coins{}
	for _, d := range EscrowDenoms {
		whale = whale.Add(sdk.NewCoin(d, sdkmath.NewIntFromBigInt(new(big.Int).Lsh(big.NewInt(1), 130))))
	}
	balances = append(balances, banktypes.Balance{Address: Addr("whale").String(), Coins: whale})
	balances = append(balances, banktypes.Balance{
		Address: Addr("delegator").String(),
		Coins:   sdk.NewCoins(sdk.NewCoin(sdk.DefaultBondDenom, sdkmath.NewInt(1_000_000))),
	})

	gen, err = sims.GenesisStateWithValSet(w.Cdc, gen, valSet, []authtypes.GenesisAccount{delegator, authorityAcc}, balances...)
	if err != nil {
		return nil, err
	}

	// bank: add the uusdc metadata required by the fiat token factory
	var bankGen banktypes.GenesisState
	w.Cdc.MustUnmarshalJSON(gen[banktypes.ModuleName], &bankGen)
	bankGen.DenomMetadata = []banktypes.Metadata{{
		Description: "USD Coin",
		DenomUnits: []*banktypes.DenomUnit{
			{Denom: Uusdc, Exponent: 0, Aliases: []string{"microusdc"}},
			{Denom: "usdc", Exponent: 6},
		},
		Base: Uusdc, Display: "usdc", Name: "usdc", Symbol: "usdc",
	}}
	gen[banktypes.ModuleName] = w.Cdc.MustMarshalJSON(&bankGen)

	// transfer: total escrow bookkeeping, as left by earlier outgoing transfers
	var trGen transfertypes.GenesisState
	w.Cdc.MustUnmarshalJSON(gen[transfertypes.ModuleName], &trGen)
	esc := sdk.Coins{}
	for _, d := range EscrowDenoms {
		esc = esc.Add(sdk.NewCoin(d, sdkmath.NewInt(EscrowSmall).MulRaw(NumChannels)))
	}
	esc = esc.Add(sdk.NewCoin(Uhuge, sdkmath.NewIntFromBigInt(MaxUint256)))
	trGen.TotalEscrowed = esc
	gen[transfertypes.ModuleName] = w.Cdc.MustMarshalJSON(&trGen)

	// fiat token factory
	ftfGen := ftftypes.GenesisState{
		Paused:       &ftftypes.Paused{Paused: false},
		Owner:        &ftftypes.Owner{Address: Addr("ftf-owner").String()},
		MasterMinter: &ftftypes.MasterMinter{Address: Addr("ftf-masterminter").String()},
		Pauser:       &ftftypes.Pauser{Address: Addr("ftf-pauser").String()},
		Blacklister:  &ftftypes.Blacklister{Address: Addr("ftf-blacklister").String()},
		MintersList: []ftftypes.Minters{{
			Address:   cctptypes.ModuleAddress.String(),
			Allowance: sdk.NewCoin(Uusdc, sdkmath.NewInt(1_000_000_000_000)),
		}},
		BlacklistedList: []ftftypes.Blacklisted{{AddressBz: Addr("blacklisted")}},
		MintingDenom:    &ftftypes.MintingDenom{Denom: Uusdc},
	}
	gen[ftftypes.ModuleName] = w.Cdc.MustMarshalJSON(&ftfGen)

	// cctp
	var messengers []cctptypes.RemoteTokenMessenger
	for _, d := range CCTPDomains {
		messengers = append(messengers, cctptypes.RemoteTokenMessenger{DomainId: d, Address: pad32([]byte(fmt.Sprintf("messenger-%d", d)))})
	}
	pub := ethcrypto.FromECDSAPub(&w.AttesterKey.PublicKey)
	cctpGen := cctptypes.GenesisState{
		Owner:           Addr("cctp-owner").String(),
		AttesterManager: Addr("cctp-attestermanager").String(),
		Pauser:          Addr("cctp-pauser").String(),
		TokenController: Addr("cctp-tokencontroller").String(),
		AttesterList:    []cctptypes.Attester{{Attester: hex.EncodeToString(pub)}},
		PerMessageBurnLimitList: []cctptypes.PerMessageBurnLimit{
			{Denom: Uusdc, Amount: sdkmath.NewInt(BurnLimit)},
		},
		BurningAndMintingPaused:           &cctptypes.BurningAndMintingPaused{Paused: false},
		SendingAndReceivingMessagesPaused: &cctptypes.SendingAndReceivingMessagesPaused{Paused: false},
		MaxMessageBodySize:                &cctptypes.MaxMessageBodySize{Amount: 8192},
		NextAvailableNonce:                &cctptypes.Nonce{Nonce: 0},
		SignatureThreshold:                &cctptypes.SignatureThreshold{Amount: 1},
		TokenMessengerList:                messengers,
	}
	gen[cctptypes.ModuleName] = w.Cdc.MustMarshalJSON(&cctpGen)

	if opts.OrbiterGenesis != nil {
		gen[core.ModuleName] = opts.OrbiterGenesis
	}

	stateBytes, err := json.Marshal(gen)
	if err != nil {
		return nil, err
	}
	blockTime := time.Date(2025, 1, 1, 0, 0, 0, 0, time.UTC)
	if _, err := app.InitChain(&abci.RequestInitChain{
		ChainId:         ChainID,
		Time:            blockTime,
		Validators:      []abci.ValidatorUpdate{},
		ConsensusParams: sims.DefaultConsensusParams,
		AppStateBytes:   stateBytes,
		InitialHeight:   1,
	}); err != nil {
		return nil, fmt.Errorf("InitChain: %w", err)
	}
	if _, err := app.FinalizeBlock(&abci.RequestFinalizeBlock{
		Height:             1,
		Time:               blockTime,
		Hash:               app.LastCommitID().Hash,
		NextValidatorsHash: valSet.Hash(),
	}); err != nil {
		return nil, fmt.Errorf("FinalizeBlock: %w", err)
	}
	if _, err := app.Commit(); err != nil {
		return nil, fmt.Errorf("Commit: %w", err)
	}

	w.root = app.NewUncachedContext(false, cmtproto.Header{
		ChainID: ChainID,
		Height:  2,
		Time:    blockTime.Add(6 * time.Second),
	})

	if err := w.setupHyperlane(); err != nil {
		return nil, fmt.Errorf("hyperlane setup: %w", err)
	}

	stack, ok := app.IBCKeeper.Router.GetRoute(transfertypes.ModuleName)
	if !ok {
		return nil, fmt.Errorf("transfer route not found")
	}
	w.Stack = stack
	w.Ref = blockibc.NewIBCMiddleware(transfer.NewIBCModule(app.TransferKeeper), app.FTFKeeper)

	return w, nil
}

// Branch returns a fresh copy-on-write branch of the root state with its own event manager and an
// infinite gas meter. Nothing a case does on a branch is ever written back.
func (w *World) Branch() sdk.Context {
	c, _ := w.root.CacheContext()
	return c.WithEventManager(sdk.NewEventManager())
}

func (w *World) run(ctx sdk.Context, msg sdk.Msg) (*sdk.Result, error) {
	h := w.App.MsgServiceRouter().Handler(msg)
	if h == nil {
		return nil, fmt.Errorf("no handler for %T", msg)
	}
	return h(ctx, msg)
}

func (w *World) setupHyperlane() error {
	owner := Addr("hyp-owner").String()
	ctx := w.root

	// The module accounts of the external modules exist, as they do on a chain where those
	// modules have been used at least once (they are created lazily on first use). Orbiter's own
	// accounts are left as a fresh chain has them.
	for _, name := range []string{warptypes.ModuleName, cctptypes.ModuleName, ftftypes.ModuleName, "hyperlane", transfertypes.ModuleName} {
		w.App.AccountKeeper.GetModuleAccount(ctx, name)
	}

	res, err := w.run(ctx, &ismtypes.MsgCreateNoopIsm{Creator: owner})
	if err != nil {
		return err
	}
	var ismResp ismtypes.MsgCreateNoopIsmResponse
	if err := unpackResp(res, &ismResp); err != nil {
		return err
	}
	res, err = w.run(ctx, &pdtypes.MsgCreateNoopHook{Owner: owner})
	if err != nil {
		return err
	}
	var hookResp pdtypes.MsgCreateNoopHookResponse
	if err := unpackResp(res, &hookResp); err != nil {
		return err
	}
	w.HypHook = hookResp.Id.Bytes()
	hookID := hookResp.Id
	res, err = w.run(ctx, &hypcoretypes.MsgCreateMailbox{
		Owner:        owner,
		LocalDomain:  forwardingtypes.HypNobleMainnetDomain,
		DefaultIsm:   ismResp.Id,
		DefaultHook:  &hookID,
		RequiredHook: &hookID,
	})
	if err != nil {
		return err
	}
	var mbResp hypcoretypes.MsgCreateMailboxResponse
	if err := unpackResp(res, &mbResp); err != nil {
		return err
	}
	{
		res, err = w.run(ctx, &warptypes.MsgCreateSyntheticToken{Owner: owner, OriginMailbox: mbResp.Id})
		if err != nil {
			return fmt.Errorf("creating the synthetic token: %w", err)
		}
		var synResp warptypes.MsgCreateSyntheticTokenResponse
		if err := unpackResp(res, &synResp); err != nil {
			return err
		}
		w.HypSynth = synResp.Id.Bytes()
		denom := "hyperlane/" + synResp.Id.String()
		if SynthDenom == "" {
			SynthDenom = denom
		} else if SynthDenom != denom {
			return fmt.Errorf("harness: the synthetic token's denomination differs between instances: %s vs %s", SynthDenom, denom)
		}
		for _, dom := range HypDomains {
			if _, err = w.run(ctx, &warptypes.MsgEnrollRemoteRouter{
				Owner: owner, TokenId: synResp.Id,
				RemoteRouter: &warptypes.RemoteRouter{ReceiverDomain: dom, ReceiverContract: hyputil.HexAddress(sha256.Sum256([]byte(fmt.Sprintf("router-%d", dom)))).String(), Gas: sdkmath.ZeroInt()},
			}); err != nil {
				return err
			}
		}
		// synthetic coins in circulation, as after inbound Hyperlane transfers: minted by the warp
		// module, held by the whale and the ordinary users
		mint := sdk.Coins{sdk.NewCoin(denom, sdkmath.NewInt(1_000_000_000_000_000))}
		if err := w.App.BankKeeper.MintCoins(ctx, warptypes.ModuleName, mint); err != nil {
			return fmt.Errorf("minting synthetic coins: %w", err)
		}
		per := sdk.Coins{sdk.NewCoin(denom, sdkmath.NewInt(1_000_000_000_000))}
		for _, n := range append([]string{"whale"}, UserNames...) {
			if err := w.App.BankKeeper.SendCoinsFromModuleToAccount(ctx, warptypes.ModuleName, Addr(n), per); err != nil {
				return fmt.Errorf("distributing synthetic coins: %w", err)
			}
		}
	}
	for _, denom := range append(append([]string{}, HypDenoms...), SwapDenom) {
		res, err = w.run(ctx, &warptypes.MsgCreateCollateralToken{Owner: owner, OriginMailbox: mbResp.Id, OriginDenom: denom})
		if err != nil {
			return err
		}
		var tokResp warptypes.MsgCreateCollateralTokenResponse
		if err := unpackResp(res, &tokResp); err != nil {
			return err
		}
		w.HypToken[denom] = tokResp.Id.Bytes()
		for _, dom := range HypDomains {
			_, err = w.run(ctx, &warptypes.MsgEnrollRemoteRouter{
				Owner:   owner,
				TokenId: tokResp.Id,
				RemoteRouter: &warptypes.RemoteRouter{
					ReceiverDomain:   dom,
					ReceiverContract: hyputil.HexAddress(sha256.Sum256([]byte(fmt.Sprintf("router-%d", dom)))).String(),
					Gas:              sdkmath.ZeroInt(),
				},
			})
			if err != nil {
				return err
			}
		}
	}
	// Interchain gas paymasters, created last so that the identifiers of everything above stay
	// what they were.
	w.HypIGP = map[string][]byte{}
	for _, denom := range IGPDenoms {
		res, err = w.run(ctx, &pdtypes.MsgCreateIgp{Owner: owner, Denom: denom})
		if err != nil {
			return fmt.Errorf("creating the gas paymaster for %s: %w", denom, err)
		}
		var igpResp pdtypes.MsgCreateIgpResponse
		if err := unpackResp(res, &igpResp); err != nil {
			return err
		}
		w.HypIGP[denom] = igpResp.Id.Bytes()
		for _, dom := range HypDomains {
			if _, err = w.run(ctx, &pdtypes.MsgSetDestinationGasConfig{
				Owner: owner, IgpId: igpResp.Id,
				DestinationGasConfig: &pdtypes.DestinationGasConfig{
					RemoteDomain: dom,
					GasOracle:    &pdtypes.GasOracle{TokenExchangeRate: pdtypes.TokenExchangeRateScale, GasPrice: sdkmath.OneInt()},
					GasOverhead:  sdkmath.ZeroInt(),
				},
			}); err != nil {
				return fmt.Errorf("gas config of the paymaster for %s: %w", denom, err)
			}
		}
	}
	return nil
}

// IGPDenoms are the denominations that have an interchain gas paymaster.
var IGPDenoms = []string{Ufoo, Uusdc}

// HypRouter enrolls or unenrolls the remote router of a collateral token for a domain, through
// the warp module's own messages, signed by the token owner.
func (w *World) HypRouter(ctx sdk.Context, tokenID []byte, domain uint32, enroll bool) TxResult {
	owner := Addr("hyp-owner").String()
	var id hyputil.HexAddress
	copy(id[:], tokenID)
	if enroll {
		return w.Tx(ctx, &warptypes.MsgEnrollRemoteRouter{
			Owner:   owner,
			TokenId: id,
			RemoteRouter: &warptypes.RemoteRouter{
				ReceiverDomain:   domain,
				ReceiverContract: hyputil.HexAddress(sha256.Sum256([]byte(fmt.Sprintf("router-%d", domain)))).String(),
				Gas:              sdkmath.ZeroInt(),
			},
		})
	}
	return w.Tx(ctx, &warptypes.MsgUnrollRemoteRouter{Owner: owner, TokenId: id, ReceiverDomain: domain})
}

func unpackResp(res *sdk.Result, into codecProtoMessage) error {
	if len(res.MsgResponses) != 1 {
		return fmt.Errorf("expected one msg response, got %d", len(res.MsgResponses))
	}
	return into.Unmarshal(res.MsgResponses[0].Value)
}

type codecProtoMessage interface {
	Unmarshal([]byte) error
}
