package light

import (
	"encoding/base64"
	"encoding/json"
	"os"
	"testing"

	"github.com/noble-assets/orbiter/v2/types/core"
)

func seeds() []string {
	var out []string
	if dir := os.Getenv("VERIF_DIR"); dir != "" {
		if bz, err := os.ReadFile(dir + "/harness/light/seeds.json"); err == nil {
			_ = json.Unmarshal(bz, &out)
		}
	}
	if bz, err := os.ReadFile("seeds.json"); err == nil && len(out) == 0 {
		_ = json.Unmarshal(bz, &out)
	}
	return out
}

func FuzzParser(f *testing.F) {
	for _, s := range seeds() {
		f.Add([]byte(s))
	}
	for _, s := range []string{"", "null", "{}", "[null]", `{"orbiter":null}`, `{"orbiter":{}}`, `{"orbiter":{"pre_actions":[null]}}`} {
		f.Add([]byte(s))
	}
	f.Fuzz(func(t *testing.T, data []byte) {
		if err := CheckMemo(string(data)); err != nil {
			if cf := os.Getenv("VERIF_CASEFILE"); cf != "" {
				doc := map[string]any{"property": os.Getenv("VERIF_PROPERTY"), "test": "TestC15Acceptance", "case": map[string]any{"memo": string(data)}, "message": err.Error()}
				bz, _ := json.MarshalIndent(doc, "", " ")
				_ = os.WriteFile(cf, bz, 0o644)
			}
			t.Fatalf("VIOLATION: %v\nmemo: %q", err, data)
		}
	})
}

// TestSeedsHold runs the oracle over the seed corpus without the fuzzer.
func TestSeedsHold(t *testing.T) {
	n := 0
	for _, s := range seeds() {
		if err := CheckMemo(s); err != nil {
			t.Fatalf("seed %q: %v", s, err)
		}
		n++
	}
	t.Logf("%d seeds hold", n)
}

// ---------------------------------------------------------------------------------------------
// Packet level: ICS-20 packet data, source port and source channel through IBCAdapter.ParsePacket.

func aspectFromEnv() Aspect {
	switch os.Getenv("VERIF_PROPERTY") {
	case "C14":
		return AspectRobust
	case "C16":
		return AspectCoin
	}
	return AspectAll
}

type packetSeed struct {
	data          string
	port, channel string
}

func packetSeeds() []packetSeed {
	orb := core.ModuleAddress.String()
	mk := func(denom, amount, receiver, memo string) string {
		bz, _ := json.Marshal(map[string]string{"denom": denom, "amount": amount, "sender": "cosmos1sender", "receiver": receiver, "memo": memo})
		return string(bz)
	}
	var out []packetSeed
	memos := seeds()
	if len(memos) == 0 {
		memos = []string{`{"orbiter":{}}`}
	}
	for i, m := range memos {
		ch := []string{"channel-7", "channel-8", "channel-0"}[i%3]
		out = append(out, packetSeed{mk("transfer/"+ch+"/uusdc", "1000000", orb, m), "transfer", ch})
	}
	m := memos[0]
	out = append(out,
		packetSeed{mk("transfer/channel-7/transfer/channel-3/uatom", "5", orb, m), "transfer", "channel-7"},
		packetSeed{mk("transfer/channel-7/gamm/pool/1", "0x10", orb, m), "transfer", "channel-7"},
		packetSeed{mk("uusdc", "1", orb, m), "transfer", "channel-7"},
		packetSeed{mk("transfer/channel-7/ibc/27394FB092D2ECCD56123C74F36E4C1F926001CEADA9CA97EA622B25F41E5EB2", "1", orb, m), "transfer", "channel-7"},
		packetSeed{mk("transfer/channel-7/uusdc", "-1", orb, m), "transfer", "channel-7"},
		packetSeed{mk("transfer/channel-7/uusdc", "115792089237316195423570985008687907853269984665640564039457584007913129639936", orb, m), "transfer", "channel-7"},
		packetSeed{mk("transfer/channel-7/uusdc", "1", "NOBLE"+upperTail(orb), m), "transfer", "channel-7"},
		packetSeed{mk("transfer/channel-7/uusdc", "1", "noble1qqqqqqqqqqqqqqqqqqqqqqqqqqqqqqqqkxz0kf", m), "transfer", "channel-7"},
		packetSeed{mk("transfer/channel-7/uusdc", "1", orb, ""), "transfer", "channel-7"},
		packetSeed{mk("a/b/uusdc", "1", orb, m), "a", "b"},
		packetSeed{mk("a/b/c/uusdc", "1", orb, m), "a/b", "c"},
		packetSeed{mk("transfer/channel-7/uusdc", "1", orb, m), "transfer", "channel-07"},
		packetSeed{mk("transfer/channel-07/uusdc", "1", orb, m), "transfer", "channel-07"},
		packetSeed{mk("transfer/channel-7/uusdc", "010", orb, m), "transfer", "channel-7"},
		packetSeed{"null", "transfer", "channel-7"},
		packetSeed{"[]", "transfer", "channel-7"},
		packetSeed{`{"denom":null,"amount":null,"receiver":null,"memo":null}`, "transfer", "channel-7"},
		packetSeed{`{"denom":"transfer/channel-7/uusdc","amount":"1","receiver":` + jq(orb) + `,"receiver":null,"memo":` + jq(m) + `}`, "transfer", "channel-7"},
		packetSeed{`{"denom":"transfer/channel-7/uusdc","amount":"1","receiver":null,"receiver":` + jq(orb) + `,"memo":` + jq(m) + `}`, "transfer", "channel-7"},
		packetSeed{`{"denom":"transfer/channel-7/uusdc","amount":"1","Receiver":` + jq(orb) + `,"memo":` + jq(m) + `}`, "transfer", "channel-7"},
		packetSeed{`{"denom":"transfer/channel-7/uusdc","amount":"1","receiver":` + jq(orb) + `,"memo":` + jq(m) + `,"x":1}`, "transfer", "channel-7"},
		packetSeed{`{"denom":"transfer/channel-7/uusdc","amount":"1","receiver":` + jq(orb) + `,"memo":` + jq(m) + `} x`, "transfer", "channel-7"},
	)
	return out
}

func jq(s string) string {
	bz, _ := json.Marshal(s)
	return string(bz)
}

func upperTail(addr string) string {
	// "noble1..." -> "1..." in upper case, so that "NOBLE"+tail is the all-upper-case spelling
	out := []byte(addr[len("noble"):])
	for i, c := range out {
		if c >= 'a' && c <= 'z' {
			out[i] = c - 32
		}
	}
	return string(out)
}

func FuzzPacket(f *testing.F) {
	aspect := aspectFromEnv()
	for _, s := range packetSeeds() {
		f.Add([]byte(s.data), s.port, s.channel)
	}
	f.Fuzz(func(t *testing.T, data []byte, port, channel string) {
		if _, err := CheckPacket(data, port, channel, aspect); err != nil {
			if cf := os.Getenv("VERIF_CASEFILE"); cf != "" {
				doc := map[string]any{"property": os.Getenv("VERIF_PROPERTY"), "test": "FuzzPacket", "message": err.Error(),
					"case": map[string]any{"data_b64": base64.StdEncoding.EncodeToString(data), "data_text": string(data), "port": port, "channel": channel, "aspect": int(aspect)}}
				bz, _ := json.MarshalIndent(doc, "", " ")
				_ = os.WriteFile(cf, bz, 0o644)
			}
			t.Fatalf("VIOLATION: %v\ndata: %q port=%q channel=%q", err, data, port, channel)
		}
	})
}

// TestPacketSeedsHold runs the packet oracle over the seed corpus without the fuzzer and checks
// that the seeds reach both outcomes.
func TestPacketSeedsHold(t *testing.T) {
	classes := map[string]int{}
	for _, s := range packetSeeds() {
		c, err := CheckPacket([]byte(s.data), s.port, s.channel, AspectAll)
		if err != nil {
			t.Fatalf("seed %q: %v", s.data, err)
		}
		classes[c]++
	}
	t.Logf("classes: %v", classes)
	if classes["accepted"] == 0 || classes["refused/orbiter"] == 0 {
		t.Fatalf("seed corpus does not reach both outcomes: %v", classes)
	}
}
