// Package light holds the native (coverage-guided) fuzz target for the payload parser. It does not
// link the application: the codec is built from the repository's own test encoding config, so the
// instrumented build takes seconds and the target reaches thousands of executions per second.
package light

import (
	"bytes"
	"encoding/json"
	"fmt"
	"os"
	"testing"

	"github.com/cosmos/gogoproto/proto"

	orbiter "github.com/noble-assets/orbiter/v2"
	adapterctrl "github.com/noble-assets/orbiter/v2/controller/adapter"
	"github.com/noble-assets/orbiter/v2/testutil"
	"github.com/noble-assets/orbiter/v2/types/core"

	"verif/harness/memo"
)

var (
	parser1 *adapterctrl.IBCParser
	parser2 *adapterctrl.IBCParser
)

func init() {
	enc := testutil.MakeTestEncodingConfig("noble")
	orbiter.RegisterInterfaces(enc.InterfaceRegistry)
	var err error
	if parser1, err = adapterctrl.NewIBCParser(enc.Codec); err != nil {
		panic(err)
	}
	if parser2, err = adapterctrl.NewIBCParser(enc.Codec); err != nil {
		panic(err)
	}
}

func parse(p *adapterctrl.IBCParser, s string) (pl *core.Payload, err error, panicked any) {
	defer func() {
		if r := recover(); r != nil {
			panicked = r
		}
	}()
	pl, err = p.ParsePayload([]byte(s))
	if err != nil {
		pl = nil
	}
	return pl, err, nil
}

func same(a, b *core.Payload) bool {
	if a == nil || b == nil {
		return a == b
	}
	x, e1 := proto.Marshal(a)
	y, e2 := proto.Marshal(b)
	return e1 == nil && e2 == nil && bytes.Equal(x, y)
}

// checkMemo is the semantic oracle inside the fuzz target: no panic (C14), acceptance implies
// well-formedness (C15), and parsing is a pure function of the memo (C15/C19).
func checkMemo(s string) error {
	p1, e1, pan := parse(parser1, s)
	if pan != nil {
		return fmt.Errorf("parser panicked: %v", pan)
	}
	for i := 0; i < 6; i++ {
		p := parser1
		if i%2 == 1 {
			p = parser2
		}
		p2, e2, pan := parse(p, s)
		if pan != nil {
			return fmt.Errorf("parser panicked: %v", pan)
		}
		if (e1 == nil) != (e2 == nil) {
			return fmt.Errorf("parsing is not a pure function of the memo: %v / %v", e1, e2)
		}
		if e1 != nil && e1.Error() != e2.Error() {
			return fmt.Errorf("error text differs between parses of the same memo: %q / %q", e1, e2)
		}
		if e1 == nil && !same(p1, p2) {
			return fmt.Errorf("parsed payload differs between parses of the same memo")
		}
	}
	if e1 == nil {
		if v, why := memo.WellFormedMemo(s); v == memo.Malformed {
			return fmt.Errorf("accepted a memo that is not a well-formed payload (%s)", why)
		}
	}
	return nil
}

func seeds() []string {
	var out []string
	if dir := os.Getenv("VERIF_DIR"); dir != "" {
		if bz, err := os.ReadFile(dir + "/harness/light/seeds.json"); err == nil {
			_ = json.Unmarshal(bz, &out)
		}
	}
	if bz, err := os.ReadFile("seeds.json"); err == nil && len(out) == 0 {
		_ = json.Unmarshal(bz, &out)
	}
	return out
}

func FuzzParser(f *testing.F) {
	for _, s := range seeds() {
		f.Add([]byte(s))
	}
	for _, s := range []string{"", "null", "{}", "[null]", `{"orbiter":null}`, `{"orbiter":{}}`, `{"orbiter":{"pre_actions":[null]}}`} {
		f.Add([]byte(s))
	}
	f.Fuzz(func(t *testing.T, data []byte) {
		if err := checkMemo(string(data)); err != nil {
			if cf := os.Getenv("VERIF_CASEFILE"); cf != "" {
				doc := map[string]any{"property": os.Getenv("VERIF_PROPERTY"), "test": "TestC15Acceptance", "case": map[string]any{"memo": string(data)}, "message": err.Error()}
				bz, _ := json.MarshalIndent(doc, "", " ")
				_ = os.WriteFile(cf, bz, 0o644)
			}
			t.Fatalf("VIOLATION: %v\nmemo: %q", err, data)
		}
	})
}

// TestSeedsHold runs the oracle over the seed corpus without the fuzzer.
func TestSeedsHold(t *testing.T) {
	n := 0
	for _, s := range seeds() {
		if err := checkMemo(s); err != nil {
			t.Fatalf("seed %q: %v", s, err)
		}
		n++
	}
	t.Logf("%d seeds hold", n)
}
