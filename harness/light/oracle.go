// Package light holds the native (coverage-guided) fuzz targets for the payload parser and the
// packet parser. It does not link the application: the codec is built from the repository's own
// test encoding config, so the instrumented build takes seconds and the targets reach thousands of
// executions per second. The oracles live in this (non-test) file so that a saved crasher can be
// replayed through `./check replay` by the props package.
package light

import (
	"bytes"
	"errors"
	"fmt"
	"math/big"
	"strings"

	"cosmossdk.io/log"
	"github.com/cosmos/cosmos-sdk/codec"
	"github.com/cosmos/cosmos-sdk/types/bech32"
	"github.com/cosmos/gogoproto/proto"
	transfertypes "github.com/cosmos/ibc-go/v8/modules/apps/transfer/types"

	sdk "github.com/cosmos/cosmos-sdk/types"

	orbiter "github.com/noble-assets/orbiter/v2"
	adapterctrl "github.com/noble-assets/orbiter/v2/controller/adapter"
	"github.com/noble-assets/orbiter/v2/testutil"
	"github.com/noble-assets/orbiter/v2/types"
	adaptertypes "github.com/noble-assets/orbiter/v2/types/component/adapter"
	"github.com/noble-assets/orbiter/v2/types/core"

	"verif/harness/memo"
)

var (
	parser1, parser2   *adapterctrl.IBCParser
	adapter1, adapter2 *adapterctrl.IBCAdapter
	codecForFresh      codec.Codec
)

func init() {
	cfg := sdk.GetConfig()
	if cfg.GetBech32AccountAddrPrefix() != "noble" {
		cfg.SetBech32PrefixForAccount("noble", "noblepub")
	}
	enc := testutil.MakeTestEncodingConfig("noble")
	orbiter.RegisterInterfaces(enc.InterfaceRegistry)
	codecForFresh = enc.Codec
	var err error
	if parser1, err = adapterctrl.NewIBCParser(enc.Codec); err != nil {
		panic(err)
	}
	if parser2, err = adapterctrl.NewIBCParser(enc.Codec); err != nil {
		panic(err)
	}
	if adapter1, err = adapterctrl.NewIBCAdapter(enc.Codec, log.NewNopLogger()); err != nil {
		panic(err)
	}
	if adapter2, err = adapterctrl.NewIBCAdapter(enc.Codec, log.NewNopLogger()); err != nil {
		panic(err)
	}
}

func parse(p *adapterctrl.IBCParser, s string) (pl *core.Payload, err error, panicked any) {
	defer func() {
		if r := recover(); r != nil {
			panicked = r
		}
	}()
	pl, err = p.ParsePayload([]byte(s))
	if err != nil {
		pl = nil
	}
	return pl, err, nil
}

func same(a, b *core.Payload) bool {
	if a == nil || b == nil {
		return a == b
	}
	x, e1 := proto.Marshal(a)
	y, e2 := proto.Marshal(b)
	return e1 == nil && e2 == nil && bytes.Equal(x, y)
}

// CheckMemo is the semantic oracle inside FuzzParser: no panic (C14), acceptance implies
// well-formedness (C15), and parsing is a pure function of the memo (C15/C19).
func CheckMemo(s string) error {
	p1, e1, pan := parse(parser1, s)
	if pan != nil {
		return fmt.Errorf("parser panicked: %v", pan)
	}
	for i := 0; i < 6; i++ {
		p := parser1
		if i%2 == 1 {
			p = parser2
		}
		p2, e2, pan := parse(p, s)
		if pan != nil {
			return fmt.Errorf("parser panicked: %v", pan)
		}
		if (e1 == nil) != (e2 == nil) {
			return fmt.Errorf("parsing is not a pure function of the memo: %v / %v", e1, e2)
		}
		if e1 != nil && e1.Error() != e2.Error() {
			return fmt.Errorf("error text differs between parses of the same memo: %q / %q", e1, e2)
		}
		if e1 == nil && !same(p1, p2) {
			return fmt.Errorf("parsed payload differs between parses of the same memo")
		}
	}
	// ... and not of the parser's history: a parser built just now must agree with the two that
	// have parsed everything before
	if fresh, err := adapterctrl.NewIBCParser(codecForFresh); err == nil {
		p3, e3, pan := parse(fresh, s)
		if pan != nil {
			return fmt.Errorf("parser panicked: %v", pan)
		}
		if (e1 == nil) != (e3 == nil) || (e1 != nil && e1.Error() != e3.Error()) || (e1 == nil && !same(p1, p3)) {
			return fmt.Errorf("a fresh parser and a long-lived parser disagree on the same memo (%v / %v): parsing depends on the parser's history", e1, e3)
		}
	}
	if e1 == nil {
		if v, why := memo.WellFormedMemo(s); v == memo.Malformed {
			return fmt.Errorf("accepted a memo that is not a well-formed payload (%s)", why)
		}
	}
	return nil
}

// ---------------------------------------------------------------------------------------------
// Packet level.

// Aspect selects which part of the packet oracle reports (the same target serves two properties).
type Aspect int

const (
	AspectAll    Aspect = iota
	AspectRobust        // C14: no panic, malformed payloads refused, repeatable
	AspectCoin          // C16: the coin acted on is the coin ICS-20 credits, one hop only
)

type parsed struct {
	data *types.ParsedData
	err  error
	pan  any
}

func parsePacket(a *adapterctrl.IBCAdapter, port, channel string, data []byte) (out parsed, built bool) {
	defer func() {
		if r := recover(); r != nil {
			out.pan = r
		}
	}()
	pkt, err := adaptertypes.NewIBCCrossChainPacket(port, channel, data)
	if err != nil {
		return parsed{}, false
	}
	built = true
	out.data, out.err = a.ParsePacket(pkt)
	return out, built
}

// ics20View is the packet data as the wrapped ICS-20 application reads it (its own proto-JSON
// codec, pinned third-party code): that reading decides who the receiver is, which memo the
// orbiter must judge and which coin is credited. ok is false when the application cannot decode
// the data at all (it would refuse the packet).
type ics20View struct {
	denom, amount, receiver, memo string
	ok                            bool
}

func viewICS20(data []byte) ics20View {
	var ref transfertypes.FungibleTokenPacketData
	if err := transfertypes.ModuleCdc.UnmarshalJSON(data, &ref); err != nil {
		return ics20View{}
	}
	return ics20View{denom: ref.Denom, amount: ref.Amount, receiver: ref.Receiver, memo: ref.Memo, ok: true}
}

func isOrbiterReceiver(r string) bool {
	hrp, bz, err := bech32.DecodeAndConvert(r)
	return err == nil && hrp == "noble" && bytes.Equal(bz, core.ModuleAddress.Bytes())
}

// CheckPacket is the oracle inside FuzzPacket.
func CheckPacket(data []byte, port, channel string, aspect Aspect) (class string, err error) {
	r1, built := parsePacket(adapter1, port, channel, data)
	if !built {
		return "unbuildable", nil
	}
	if r1.pan != nil {
		if aspect == AspectCoin {
			return "panic", nil
		}
		return "panic", fmt.Errorf("ParsePacket panicked: %v", r1.pan)
	}
	accepted := r1.err == nil
	if accepted && r1.data == nil {
		return "accepted", fmt.Errorf("ParsePacket returned neither data nor an error")
	}
	if aspect != AspectCoin {
		for i := 0; i < 3; i++ {
			a := adapter2
			if i == 1 {
				a = adapter1
			}
			r2, _ := parsePacket(a, port, channel, data)
			if r2.pan != nil {
				return "panic", fmt.Errorf("ParsePacket panicked: %v", r2.pan)
			}
			if (r2.err == nil) != accepted {
				return "unstable", fmt.Errorf("parsing is not a pure function of the packet: %v / %v", r1.err, r2.err)
			}
			if !accepted && r1.err.Error() != r2.err.Error() {
				return "unstable", fmt.Errorf("error text differs between parses of the same packet: %q / %q", r1.err, r2.err)
			}
			if accepted && (!same(&r1.data.Payload, &r2.data.Payload) || r1.data.Coin.Denom != r2.data.Coin.Denom || !r1.data.Coin.Amount.Equal(r2.data.Coin.Amount)) {
				return "unstable", fmt.Errorf("parsed data differs between parses of the same packet")
			}
		}
	}
	v := viewICS20(data)
	if !v.ok {
		if accepted {
			return "accepted", fmt.Errorf("parsed as an orbiter packet data that the ICS-20 application itself cannot decode")
		}
		return "refused/not-ics20", nil
	}
	toOrbiter := isOrbiterReceiver(v.receiver)
	if !accepted {
		if aspect != AspectCoin && toOrbiter && errors.Is(r1.err, core.ErrNoOrbiterPacket) {
			return "refused", fmt.Errorf("an ICS-20 packet whose receiver decodes to the orbiter account is classified as not for the orbiter (it would be credited to the account and left there): %v", r1.err)
		}
		if toOrbiter {
			return "refused/orbiter", nil
		}
		return "refused/other", nil
	}
	// accepted
	if !toOrbiter {
		return "accepted", fmt.Errorf("a packet whose receiver %q is not the orbiter account was parsed as an orbiter packet", v.receiver)
	}
	if aspect != AspectCoin {
		if verdict, why := memo.WellFormedMemo(v.memo); verdict == memo.Malformed {
			return "accepted", fmt.Errorf("accepted a packet whose memo is not a well-formed payload (%s)", why)
		}
		p, e, _ := parse(parser2, v.memo)
		if e != nil || !same(p, &r1.data.Payload) {
			return "accepted", fmt.Errorf("the payload parsed from the packet differs from the payload parsed from its memo (%v)", e)
		}
	}
	if aspect != AspectRobust {
		prefix := port + "/" + channel + "/"
		if !strings.HasPrefix(v.denom, prefix) {
			return "accepted", fmt.Errorf("accepted denom %q which does not carry the packet's own prefix %q (not returning to its source)", v.denom, prefix)
		}
		rest := v.denom[len(prefix):]
		if tr := transfertypes.ParseDenomTrace(rest); tr.Path != "" {
			return "accepted", fmt.Errorf("accepted denom %q whose remainder %q has a further trace: ICS-20 credits the voucher %q, not a Noble-native token", v.denom, rest, tr.IBCDenom())
		}
		if r1.data.Coin.Denom != rest {
			return "accepted", fmt.Errorf("the coin acted on has denom %q, ICS-20 releases %q", r1.data.Coin.Denom, rest)
		}
		want, ok := new(big.Int).SetString(v.amount, 0)
		if !ok {
			return "accepted", fmt.Errorf("accepted amount %q which is not an integer", v.amount)
		}
		if r1.data.Coin.Amount.BigInt().Cmp(want) != 0 {
			return "accepted", fmt.Errorf("the coin acted on has amount %s, the packet says %q", r1.data.Coin.Amount, v.amount)
		}
	}
	return "accepted", nil
}
