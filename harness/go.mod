module verif/harness

go 1.24

require pgregory.net/rapid v1.3.0
