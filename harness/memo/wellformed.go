package memo

import (
	"fmt"
	"strconv"
	"strings"

	"github.com/cosmos/gogoproto/proto"

	actiontypes "github.com/noble-assets/orbiter/v2/types/controller/action"
	forwardingtypes "github.com/noble-assets/orbiter/v2/types/controller/forwarding"
)

// WellFormedMemo is the acceptance criterion of property C15 evaluated on the *input text* with
// an independent JSON walk: a JSON object whose single root key is "orbiter", exactly one
// forwarding with a supported protocol identifier and attributes of a registered forwarding
// type, pre-actions with distinct supported identifiers and attributes of a registered action
// type, and no unknown fields. It is a necessary condition for acceptance: values (numbers,
// addresses, lengths) are not judged here.

type Verdict int

const (
	WellFormed Verdict = iota
	Malformed
	// Undecided: the text contains a repeated key, about which the statement says nothing.
	Undecided
)

// The type URLs are taken from the registered Go types (a renamed proto package is not a
// property violation); which types count as registered per interface is fixed here from the
// statement: three forwarding types, one action type.
var (
	urlCCTP     = "/" + proto.MessageName(&forwardingtypes.CCTPAttributes{})
	urlHyp      = "/" + proto.MessageName(&forwardingtypes.HypAttributes{})
	urlInternal = "/" + proto.MessageName(&forwardingtypes.InternalAttributes{})
	urlFee      = "/" + proto.MessageName(&actiontypes.FeeAttributes{})
)

type fieldSet map[string]string // accepted spelling -> canonical name

func fields(names ...string) fieldSet {
	fs := fieldSet{}
	for _, n := range names {
		fs[n] = n
		fs[camel(n)] = n
	}
	return fs
}

func camel(s string) string {
	parts := strings.Split(s, "_")
	for i := 1; i < len(parts); i++ {
		if parts[i] != "" {
			parts[i] = strings.ToUpper(parts[i][:1]) + parts[i][1:]
		}
	}
	return strings.Join(parts, "")
}

var (
	payloadFields    = fields("pre_actions", "forwarding")
	forwardingFields = fields("protocol_id", "attributes", "passthrough_payload")
	actionFields     = fields("id", "attributes")
	coinFields       = fields("denom", "amount")
	valueFields      = fields("value")
	feeInfoFields    = fields("recipient", "basis_points", "amount")
	attrFields       = map[string]fieldSet{
		urlCCTP:     fields("destination_domain", "mint_recipient", "destination_caller"),
		urlHyp:      fields("token_id", "destination_domain", "recipient", "custom_hook_id", "custom_hook_metadata", "gas_limit", "max_fee"),
		urlInternal: fields("recipient"),
		urlFee:      fields("fees_info"),
	}
	protocolEnum = map[string]int64{"PROTOCOL_UNSUPPORTED": 0, "PROTOCOL_IBC": 1, "PROTOCOL_CCTP": 2, "PROTOCOL_HYPERLANE": 3, "PROTOCOL_INTERNAL": 4}
	actionEnum   = map[string]int64{"ACTION_UNSUPPORTED": 0, "ACTION_FEE": 1, "ACTION_SWAP": 2}
)

type wfWalker struct {
	dup bool
	bad string
}

func (w *wfWalker) fail(format string, a ...any) {
	if w.bad == "" {
		w.bad = fmt.Sprintf(format, a...)
	}
}

func IsNull(v *JV) bool { return v.Kind == JRawKind && v.Str == "null" }

// object returns the members of v by canonical name, noting duplicates and unknown names.
func (w *wfWalker) object(v *JV, what string, known fieldSet, extra ...string) map[string]*JV {
	if v.Kind != JObj {
		w.fail("%s is not an object", what)
		return nil
	}
	out := map[string]*JV{}
	for _, kv := range v.Obj {
		canon, ok := known[kv.K]
		if !ok {
			for _, e := range extra {
				if kv.K == e {
					canon, ok = e, true
				}
			}
		}
		if !ok {
			w.fail("%s has unknown field %q", what, kv.K)
			continue
		}
		if _, seen := out[canon]; seen {
			w.dup = true
		}
		out[canon] = kv.V
	}
	return out
}

// enumValue reads an enum given as a JSON number or a symbolic name. known=false means the text
// clearly names no supported value.
func enumValue(v *JV, names map[string]int64) (val int64, known bool) {
	switch v.Kind {
	case JRawKind:
		if i, err := strconv.ParseInt(v.Str, 10, 64); err == nil {
			return i, true
		}
		if f, err := strconv.ParseFloat(v.Str, 64); err == nil && f == float64(int64(f)) {
			return int64(f), true
		}
		return 0, false
	case JString:
		if i, ok := names[v.Str]; ok {
			return i, true
		}
		if i, err := strconv.ParseInt(v.Str, 10, 64); err == nil {
			return i, true
		}
		return 0, false
	}
	return 0, false
}

func (w *wfWalker) attributes(v *JV, what string, allowed []string) {
	if v == nil || IsNull(v) {
		w.fail("%s: attributes missing", what)
		return
	}
	if v.Kind != JObj {
		w.fail("%s: attributes is not an object", what)
		return
	}
	var url string
	var urlNode *JV
	nURL := 0
	for _, kv := range v.Obj {
		if kv.K == "@type" {
			nURL++
			urlNode = kv.V
		}
	}
	if nURL == 0 {
		w.fail("%s: attributes carry no @type", what)
		return
	}
	if nURL > 1 {
		// repeated key: which one counts is not stated
		w.dup = true
		return
	}
	if urlNode.Kind != JString {
		w.fail("%s: @type is not a string", what)
		return
	}
	url = urlNode.Str
	ok := false
	for _, a := range allowed {
		if a == url {
			ok = true
		}
	}
	if !ok {
		w.fail("%s: type %q is not a registered type of this interface", what, url)
		return
	}
	m := w.object(v, what+" attributes", attrFields[url], "@type")
	switch url {
	case urlHyp:
		if c, has := m["max_fee"]; has && !IsNull(c) {
			w.object(c, what+" max_fee", coinFields)
		}
	case urlFee:
		if fi, has := m["fees_info"]; has && !IsNull(fi) {
			if fi.Kind != JArr {
				w.fail("%s: fees_info is not an array", what)
				return
			}
			for i, e := range fi.Arr {
				if IsNull(e) {
					w.fail("%s: fees_info[%d] is null", what, i)
					continue
				}
				fm := w.object(e, fmt.Sprintf("%s fees_info[%d]", what, i), feeInfoFields)
				for _, k := range []string{"basis_points", "amount"} {
					if x, has := fm[k]; has && !IsNull(x) {
						w.object(x, fmt.Sprintf("%s fees_info[%d].%s", what, i, k), valueFields)
					}
				}
			}
		}
	}
}

// WellFormedMemo judges a memo text.
func WellFormedMemo(memo string) (Verdict, string) {
	root, err := ParseJSON(memo)
	if err != nil {
		return Malformed, "not JSON: " + err.Error()
	}
	w := &wfWalker{}
	if root.Kind != JObj {
		return Malformed, "root is not an object"
	}
	nOrb := 0
	for _, kv := range root.Obj {
		if kv.K != "orbiter" {
			return Malformed, fmt.Sprintf("root key %q", kv.K)
		}
		nOrb++
	}
	if nOrb == 0 {
		return Malformed, "no orbiter key"
	}
	if nOrb > 1 {
		w.dup = true
	}
	orb := root.Obj[len(root.Obj)-1].V
	if IsNull(orb) {
		return Malformed, "orbiter is null"
	}
	p := w.object(orb, "payload", payloadFields)
	if p == nil {
		return Malformed, w.bad
	}
	fw, has := p["forwarding"]
	if !has || IsNull(fw) {
		w.fail("no forwarding")
	} else {
		f := w.object(fw, "forwarding", forwardingFields)
		if f != nil {
			id, has := f["protocol_id"]
			if !has || IsNull(id) {
				w.fail("forwarding has no protocol identifier")
			} else if v, known := enumValue(id, protocolEnum); !known || v < 1 || v > 4 {
				w.fail("forwarding protocol identifier %s is not supported", id.String())
			}
			w.attributes(f["attributes"], "forwarding", []string{urlCCTP, urlHyp, urlInternal})
		}
	}
	if pa, has := p["pre_actions"]; has && !IsNull(pa) {
		if pa.Kind != JArr {
			w.fail("pre_actions is not an array")
		} else {
			seen := map[int64]bool{}
			for i, a := range pa.Arr {
				if IsNull(a) {
					w.fail("pre_actions[%d] is null", i)
					continue
				}
				am := w.object(a, fmt.Sprintf("pre_actions[%d]", i), actionFields)
				if am == nil {
					continue
				}
				id, has := am["id"]
				if !has || IsNull(id) {
					w.fail("pre_actions[%d] has no identifier", i)
				} else if v, known := enumValue(id, actionEnum); !known || v < 1 || v > 2 {
					w.fail("pre_actions[%d] identifier %s is not supported", i, id.String())
				} else {
					if seen[v] {
						w.fail("pre_actions repeats identifier %d", v)
					}
					seen[v] = true
				}
				w.attributes(am["attributes"], fmt.Sprintf("pre_actions[%d]", i), []string{urlFee})
			}
		}
	}
	if w.dup {
		return Undecided, "repeated key"
	}
	if w.bad != "" {
		return Malformed, w.bad
	}
	return WellFormed, ""
}

// Type URLs of the registered attribute types, for tests that splice raw JSON.
func URLCCTP() string     { return urlCCTP }
func URLHyp() string      { return urlHyp }
func URLInternal() string { return urlInternal }
func URLFee() string      { return urlFee }
