package memo

import (
	"bytes"
	"encoding/json"
	"fmt"
	"strconv"
	"strings"
)

// A JSON tree that keeps member order and can hold duplicate keys and raw (even invalid) text,
// so that structural mutations of a valid memo can be written back out exactly.

type Kind int

const (
	JObj Kind = iota
	JArr
	JString
	JRawKind // number, true, false, null, or arbitrary raw text
)

type JV struct {
	Kind Kind
	Obj  []JKV
	Arr  []*JV
	Str  string // JString: the string's bytes (may be invalid UTF-8); JRawKind: literal text
}

type JKV struct {
	K string
	V *JV
}

func JRaw(s string) *JV { return &JV{Kind: JRawKind, Str: s} }
func JStr(s string) *JV { return &JV{Kind: JString, Str: s} }
func JNull() *JV        { return JRaw("null") }

func ParseJSON(s string) (*JV, error) {
	dec := json.NewDecoder(strings.NewReader(s))
	dec.UseNumber()
	v, err := parseValue(dec)
	if err != nil {
		return nil, err
	}
	if dec.More() {
		return nil, fmt.Errorf("trailing data")
	}
	return v, nil
}

func parseValue(dec *json.Decoder) (*JV, error) {
	tok, err := dec.Token()
	if err != nil {
		return nil, err
	}
	switch x := tok.(type) {
	case json.Delim:
		switch x {
		case '{':
			o := &JV{Kind: JObj}
			for dec.More() {
				kt, err := dec.Token()
				if err != nil {
					return nil, err
				}
				k, ok := kt.(string)
				if !ok {
					return nil, fmt.Errorf("non-string key")
				}
				v, err := parseValue(dec)
				if err != nil {
					return nil, err
				}
				o.Obj = append(o.Obj, JKV{k, v})
			}
			if _, err := dec.Token(); err != nil {
				return nil, err
			}
			return o, nil
		case '[':
			a := &JV{Kind: JArr}
			for dec.More() {
				v, err := parseValue(dec)
				if err != nil {
					return nil, err
				}
				a.Arr = append(a.Arr, v)
			}
			if _, err := dec.Token(); err != nil {
				return nil, err
			}
			return a, nil
		}
		return nil, fmt.Errorf("unexpected delimiter %v", x)
	case string:
		return JStr(x), nil
	case json.Number:
		return JRaw(x.String()), nil
	case bool:
		return JRaw(strconv.FormatBool(x)), nil
	case nil:
		return JNull(), nil
	}
	return nil, fmt.Errorf("unexpected token %v", tok)
}

func (v *JV) String() string {
	var b bytes.Buffer
	v.write(&b)
	return b.String()
}

func writeJSONString(b *bytes.Buffer, s string) {
	// Escape the minimum so that invalid UTF-8 bytes survive verbatim.
	b.WriteByte('"')
	for i := 0; i < len(s); i++ {
		c := s[i]
		switch {
		case c == '"' || c == '\\':
			b.WriteByte('\\')
			b.WriteByte(c)
		case c < 0x20:
			fmt.Fprintf(b, "\\u%04x", c)
		default:
			b.WriteByte(c)
		}
	}
	b.WriteByte('"')
}

func (v *JV) write(b *bytes.Buffer) {
	switch v.Kind {
	case JObj:
		b.WriteByte('{')
		for i, kv := range v.Obj {
			if i > 0 {
				b.WriteByte(',')
			}
			writeJSONString(b, kv.K)
			b.WriteByte(':')
			kv.V.write(b)
		}
		b.WriteByte('}')
	case JArr:
		b.WriteByte('[')
		for i, e := range v.Arr {
			if i > 0 {
				b.WriteByte(',')
			}
			e.write(b)
		}
		b.WriteByte(']')
	case JString:
		writeJSONString(b, v.Str)
	default:
		b.WriteString(v.Str)
	}
}

func (v *JV) Clone() *JV {
	c := &JV{Kind: v.Kind, Str: v.Str}
	for _, kv := range v.Obj {
		c.Obj = append(c.Obj, JKV{kv.K, kv.V.Clone()})
	}
	for _, e := range v.Arr {
		c.Arr = append(c.Arr, e.Clone())
	}
	return c
}
