"""Which test functions decide which property, and with what budgets.

quick / thorough = total number of rapid cases over all shards of that tier.
"""

COMMON_ASSUMPTIONS = [
    "IBC core's write-only-on-successful-ack is reproduced by the harness (DESIGN.md 2.4), not exercised through MsgRecvPacket; baseapp's per-message rollback is reproduced too and cross-validated against signed transactions through FinalizeBlock for admin histories (Test*RealTransactions)",
    "one configuration family of the external modules (harness genesis, DESIGN.md 2.3); pinned ibc-go/bank/CCTP/FTF/warp behaviour is trusted",
    "decided on the generated cases only: no absence proof",
]

HISTORY_RULE = ("rapid draws whole histories (1-25 steps quick, 1-60 thorough) of packets (constructed orbiter transfers over all "
                "routes/recipients/fee lists/denoms/amount classes incl. every bit length up to 256, other receiver spellings, mutated and garbage "
                "memos, packet data in JSON spellings on which decoders disagree, Hyperlane routes naming another denomination's token, payloads "
                "naming the action the application registers no controller for), admin "
                "messages and environment steps (direct deposits, re-escrow, FTF pause/blacklist, CCTP burn limit, CCTP burn/message pauses, Hyperlane "
                "router unenrol/enrol, the next block (height/time), the bank's per-denomination send switch, an in-place upgrade running the module's "
                "registered migrations, another execution mode of the context, coins of a case-fold look-alike denomination minted onto the account), packets carrying a non-native coin or a valid protocol id without controller, recipients incl. 32-byte and 2-byte addresses, denominations incl. one of the maximum length 128 and one using "
                "every allowed character class; Hyperlane routes may name the environment's SYNTHETIC token (its own denomination is never transferred); "
                "executed on a "
                "branch of the real SimApp; the oracle runs after every packet step. ")

PROPERTIES = {
    "C01": {
        "level": "exploration",
        "rule": HISTORY_RULE + "Non-trivial = an ICS-20-valid packet whose receiver decodes to the orbiter account; distinct by "
                "(route, denom, amount class, recipient, fee count, dust present, outcome, receiver spelling, raw memo). TestC01LabFaults (LAB world): one packet shape and ONE failing dependency call (returns an error / panics before / panics after its work) at a drawn position; whatever the receive path makes of it, a success acknowledgement never leaves the delivered coin, or more than before, on the orbiter account and anything else leaves the ledger untouched. Non-trivial there = the fault fired.",
        "assumptions": COMMON_ASSUMPTIONS,
        "tests": [{"test": "TestC01History", "quick": 400, "thorough": 192000},
                  {"test": "TestC01LabFaults", "quick": 500, "thorough": 800000}],
    },
    "C02": {
        "level": "exploration",
        "rule": HISTORY_RULE + "Non-trivial = a successful orbiter transfer, whose whole-ledger delta (all accounts and total supply) "
                "is compared with the reference model's expected delta; model-free clause for EVERY successful packet to the orbiter account, "
                "whatever its memo: per-denom deltas sum to the supply delta and the orbiter account has not gained anything. "
                "Distinct by (route, denom, amount class, recipient, fee count, dust present). TestC02LabFaults (LAB world): one packet shape and ONE failing dependency call (returns an error / panics before / panics after its work) at a drawn position; whatever the receive path makes of it, a success acknowledgement comes with exactly the model ledger delta of the complete transfer and anything else leaves the ledger untouched. Non-trivial there = the fault fired.",
        "assumptions": COMMON_ASSUMPTIONS,
        "tests": [{"test": "TestC02History", "quick": 400, "thorough": 192000},
                  {"test": "TestC02LabFaults", "quick": 500, "thorough": 800000}],
    },
    "C03": {
        "level": "fault_enumeration",
        "rule": "LAB world (orbiter keeper built from public constructors over the real bank/CCTP/warp/ICS-20, every dependency wrapped): "
                "rapid draws a payload shape (route x action order incl. a denomination-changing test action x 0-3 fees x dust x passthrough); "
                "the fault-free run records the ordered fault sites actually reached (sweep, wrapped ICS-20 app, each fee send, swap, fee "
                "event, Hyperlane token query, bridge call, final event) and must be a success whose call record shows every fund movement "
                "completed; then EVERY single site and EVERY ordered pair of sites is failed in turn (exhaustive per shape) and the ack "
                "must be an error ack. PROD world: 13 naturally occurring failure causes (FTF blacklist/pause, CCTP burn limit/unknown "
                "domain/burning paused, Hyperlane unknown domain/token/other-denom token, blocked recipient, short escrow, receive disabled): "
                "error ack, or a success whose whole-ledger delta is exactly the model's; for the causes the statement lists (and whenever the cause "
                "makes a step of this transfer impossible) a success is a violation. Every call site is also made to fail by PANICKING, before "
                "the real call and after it completed: the receive path may abort or return an error ack, never a success; a step of the fault-free "
                "run that is skipped when the same packet is executed again on the same state is a violation too. "
                "Non-trivial = a faulted run whose fault fired / a "
                "natural failure; distinct by (shape, fault tuple).",
        "assumptions": COMMON_ASSUMPTIONS + ["the LAB world duplicates the wiring of depinject.go (the wiring itself is exercised by the PROD-world checks)",
                                             "statistics failures are the one documented exception and are not a fault site"],
        "tests": [
            {"test": "TestC03Faults", "quick": 60, "thorough": 16000},
            {"test": "TestC03Natural", "quick": 600, "thorough": 160000},
        ],
    },
    "C04": {
        "level": "exploration",
        "rule": "rapid constructs fee lists around the boundaries the statement names: valid lists by construction; a valid list plus one fixed "
                "entry bringing the total to A-2..A+7; hostile entries (bps 0/10001/2^32-1, fixed amounts '0','-1','1.5','1e3','',2^255,2^256, "
                "invalid recipients); 5-7 entries; A*bps around 2^256 and fixed amounts summing around 2^256; A from 1 to 2^256-1. Each list runs "
                "(a) directly against FeeController.HandlePacket with an in-memory bank and (b) through the memo on the real stack (internal "
                "route, non-FTF denom). Oracle = reference model, both directions: a listed reason => refused with nothing paid; no listed "
                "reason (clean environment) => accepted, every recipient credited exactly floor(A*bps/10000) / its fixed amount, zero entries "
                "credit nothing, forwarded = A - sum. Non-trivial = a list with >= 1 entry where rounding, the sum-vs-A boundary, "
                "non-compounding (>= 2 bps entries), the entry count or values near 2^256 are decisive; distinct by (A, list). Amounts are drawn "
                "with a uniform bit length 1..256 and around every machine word size; one shape writes a fixed amount in a spelling from a number "
                "grammar (sign, radix prefix, leading zeros, separators, white space): where base 10 and base 0 read two different numbers the "
                "model demands only that what is credited is what is deducted.",
        "assumptions": COMMON_ASSUMPTIONS + ["don't-care regions: non-decimal integer spellings of fixed amounts ('+5','007','0x10'), A*bps needing more than 256 bits while the fee itself fits, fee recipient = orbiter account (acceptance only)"],
        "tests": [
            {"test": "TestC04Direct", "quick": 20000, "thorough": 6400000},
            {"test": "TestC04EndToEnd", "quick": 2500, "thorough": 800000},
        ],
    },
    "C05": {
        "level": "exploration",
        "rule": "LAB world (recorded requests): rapid draws payloads valid by construction over every attribute value of the three routes, "
                "all action orders incl. a denomination-changing test action, amounts to 2^256-1; whenever a bridge call is recorded it must be "
                "the only one, on the route the identifier names, and equal the payload field by field (CCTP: From/Amount/BurnToken/domain/"
                "mint recipient/caller and the WithCaller variant iff a caller is given; warp: Sender/TokenId/domain/Recipient/Amount/"
                "CustomHookId (nil iff empty)/GasLimit/MaxFee/CustomHookMetadata; bank: From/To/coin) with the model's post-action coin. "
                "The (protocol id in {-1,0..6,2^31-1}) x (attribute type) matrix and the (action id) x (attribute type) matrix are ENUMERATED "
                "exhaustively in numeric and symbolic spelling: matching cells succeed on the named route, all others are refused with no "
                "bridge call. MsgReplaceDepositForBurn: recorded CCTP request has From = orbiter and the four byte fields unchanged. "
                "PROD world: DepositForBurn/MessageSent(parsed)/EventSendRemoteTransfer events equal the payload, and a REAL replacement "
                "(message attested with the harness attester key) carries the new recipient/caller and the original nonce/amount. "
                "The token named in a recorded warp request must be the token of the post-action denomination (collateral tokens and the "
                "environment's synthetic token are known to the harness). "
                "Non-trivial = a transfer whose request was recorded / a matrix cell / a replacement; distinct by case.",
        "assumptions": COMMON_ASSUMPTIONS + ["LAB duplicates the wiring of depinject.go; the routing by identifier of the wired chain is checked on the PROD stack by the matrix test"],
        "tests": [
            {"test": "TestC05Request", "quick": 1500, "thorough": 480000},
            {"test": "TestC05Matrix", "kind": "plain", "quick": 1, "thorough": 1},
            {"test": "TestC05Replace", "quick": 300, "thorough": 80000},
            {"test": "TestC05Events", "quick": 400, "thorough": 160000},
        ],
    },
    "C06": {
        "level": "exploration",
        "rule": "LAB world with two real action controllers registered (fee, and a denomination-changing test controller under ACTION_SWAP): "
                "rapid draws every order of the registered actions ([], [fee], [swap], [fee,swap], [swap,fee]) and repeated identifiers "
                "([fee,fee], [swap,swap], [fee,swap,fee], [swap,fee,swap]), fee lists, amounts up to 2^250, all three routes (a Hyperlane token "
                "for the swap output exists). Oracle: the recorded action calls (each fee send with recipient/amount/denom, each swap input) equal, "
                "in order, the reference model's fold of the running coin; the recorded bridge request carries exactly the final coin; whole-ledger "
                "delta and the two statistics entries equal the model; a repeated identifier => error ack with NO action call executed; a fee list "
                "the statement refuses at ANY position of the list, or a paused action anywhere in it => error ack (never 'the remaining actions "
                "were skipped'). A list the model accepts may be refused only when a recorded dependency call failed (ICS-20, bank, swap venue, "
                "bridge, event manager); otherwise the module itself refused a list it must apply. The request of a bridge call that the bridge REFUSED "
                "is checked as well (CCTP after a swap is drawn on purpose: it cannot burn the swap output but must be asked about the right coin); "
                "one transferable denomination differs from the swap output by letter case only. "
                "Non-trivial = >= 2 actions or a denomination change or a repeated identifier; distinct by case.",
        "assumptions": COMMON_ASSUMPTIONS + ["the swap controller is the harness's own (the chain registers none); LAB never deposits its output denom on the orbiter account"],
        "tests": [{"test": "TestC06Orders", "quick": 1500, "thorough": 600000}],
    },
    "C08": {
        "level": "exploration",
        "rule": "rapid draws histories of the four forwarder admin messages (batches of 0-101 ids, duplicates, ids already present/absent, "
                "invalid ids, unknown protocol names, foreign signers) interleaved with probe transfers that are valid by construction. "
                "After every message: model verdict == message result, model sets == exported state == all four pause queries (all pages). "
                "Every probe runs on the current state S and on S with every pause removed: paused destination => error ack; otherwise "
                "identical ack and ledger delta. Non-trivial = a probe executed while >= 1 pause entry exists; distinct by (paused sets, destination).",
        "assumptions": COMMON_ASSUMPTIONS + ["an empty counterparty batch is a re-synchronisation step (the statement does not say what it means)",
                                             "counterparty ids come from the canonical and the clearly invalid region; the lenient region is C20's subject"],
        "tests": [
            {"test": "TestC08History", "quick": 300, "thorough": 160000},
            {"test": "TestC08RealTransactions", "quick": 60, "thorough": 12800},
        ],
    },
    "C09": {
        "level": "exploration",
        "rule": "rapid draws histories of PauseAction/UnpauseAction (every action name, unknown names, ACTION_UNSUPPORTED, foreign signers) "
                "interleaved with probe transfers with and without a fee action. After every message: model verdict == result, model set == "
                "exported state == both executor queries. Every probe runs on S and on S with every action pause removed: payload "
                "containing a paused action => error ack and empty ledger delta; otherwise identical ack and ledger delta. "
                "A third of the probes in the application's own wiring also name ACTION_SWAP (alone, before or after the fee), which can be paused "
                "but has no controller there: error ack required, paused or not, never a panic. The LAB variant repeats the check with a second "
                "registered controller. Non-trivial = a probe executed while >= 1 action is paused; distinct by (paused set, probe).",
        "assumptions": COMMON_ASSUMPTIONS + ["TestC09Lab repeats the check in the LAB world where a second (denomination-changing) action controller is registered: pausing one action leaves payloads with only the other unaffected, and no call of a paused action is recorded"],
        "tests": [
            {"test": "TestC09History", "quick": 300, "thorough": 160000},
            {"test": "TestC09Lab", "quick": 250, "thorough": 120000},
            {"test": "TestC09RealTransactions", "quick": 40, "thorough": 6400},
        ],
    },
    "C18": {
        "level": "exploration",
        "rule": "rapid draws histories of UpdateParams (values 0, 1, small, 2^16, 2^32-1 and arbitrary 32-bit values; authority and foreign "
                "signers) and after the initial state and after every step probes the same valid transfer with passthrough lengths "
                "0, 1, limit-1, limit, limit+1, 2*limit+7 (capped at 64 KiB; the probe memo is serialised WITHOUT the module's validating "
                "constructors): within the limit => success, above => error ack; the Params query "
                "must report the last successfully set value. Non-trivial = a probe pair straddling a non-zero limit after >= 1 update; "
                "distinct by (number of updates, limit, length).",
        "assumptions": COMMON_ASSUMPTIONS + ["limits above 64 KiB are probed from below only"],
        "tests": [
            {"test": "TestC18History", "quick": 300, "thorough": 120000},
            {"test": "TestC18RealTransactions", "quick": 40, "thorough": 6400},
        ],
    },
    "C11": {
        "level": "exploration",
        "rule": "rapid draws a state S (short history of transfers/admin messages/environment steps), 1-4 direct deposits to the orbiter "
                "account (65% in the transferred denom, tiny to 10^9, including exactly the transfer amount) and a transfer over all "
                "routes/recipients/fee lists; the transfer runs on S and on S+deposits. Required equal: ack bytes, ledger delta of every "
                "account other than orbiter and dust collector, third-party (bridge) events incl. CCTP nonce, exported statistics; in the "
                "second run the deposited balance of the transferred denom ends on the dust collector and other denoms stay untouched. "
                "10% of the pairs name another denomination's Hyperlane token with that denomination deposited (it must not pay for the transfer). "
                "Non-trivial = the transferred denom had a pre-existing balance and the base run succeeded; distinct by (deposits, transfer). "
                "TestC11HookFees: Hyperlane transfers naming an interchain gas paymaster of the environment as custom hook (the mailbox charges the "
                "sender gas_limit base units of the paymaster's denomination up to max_fee), fee and max_fee in the transferred or another denomination, "
                "below/at/above the quote, deposits around the fee, same two-run oracle; the class of the open known finding C11-hook-fee (fee in another "
                "denomination attempted on a pre-existing balance of it) is excluded by construction and counted, TestC11KnownHookFee reproduces it.",
        "assumptions": COMMON_ASSUMPTIONS,
        "tests": [
            {"test": "TestC11Pairs", "quick": 2000, "thorough": 800000},
            {"test": "TestC11HookFees", "quick": 600, "thorough": 800000},
            {"test": "TestC11KnownHookFee", "kind": "plain", "quick": 1, "thorough": 1},
        ],
    },
    "C12": {
        "level": "exploration",
        "rule": HISTORY_RULE + "After EVERY step the exported dispatcher state is compared with a ledger the harness folds from the "
                "successful constructed transfers (received coin, forwarded coin computed by the reference model, count). "
                "TestC12FromGenesis starts the history from an IMPORTED genesis (in 15% of the cases with 1..130 further routes, so that the ledger "
                "exceeds one default page of 100): prior totals (up to 2^255) and counters (up to 2^64-1) for the "
                "routes the history uses; the fold continues from them; a counter asked to exceed 2^64-1 is a counted don't-care while the totals "
                "of that route are still compared. "
                "Non-trivial = a history with >= 2 successful transfers on >= 2 statistics keys and >= 1 refused transfer, or a successful "
                "transfer on a route with imported statistics; distinct by history.",
        "assumptions": COMMON_ASSUMPTIONS + ["stated domain bound: cumulative amount per statistics key below 2^256 (single amounts capped at 2^248)"],
        "tests": [
            {"test": "TestC12History", "quick": 400, "thorough": 160000},
            {"test": "TestC12Lab", "quick": 300, "thorough": 120000},
            {"test": "TestC12FromGenesis", "quick": 400, "thorough": 160000},
        ],
    },
    "C15": {
        "level": "exploration",
        "rule": "(1) round-trip: rapid draws payloads over every forwarding type x fee lists x passthrough bytes through the public "
                "constructors; MarshalJSON -> parser must succeed, give a proto-equal payload with equal unpacked attributes, and re-marshal "
                "to the same bytes. (2)-(4): memos = structural mutants of valid memos (1-2 mutations at random positions), the targeted "
                "mutants the statement names (unknown field in any object, second root key, @type replaced by an unregistered or "
                "other-interface URL), numeric enum spellings, valid memos and fuzzed strings; whenever the parser ACCEPTS, an independent JSON "
                "walk of the input text must find a well-formed payload (single root key, one forwarding with id 1..4 and a registered "
                "forwarding type, distinct action ids in {1,2} with a registered action type, no unknown field) and the parsed result must "
                "satisfy the same; every memo is parsed three times (again after other memos, and on a second parser instance) and results / "
                "error texts must be equal. Thorough tier adds a native coverage-guided campaign (go test -fuzz, 240 s, 16 workers) on a "
                "light package that does not link the application, with the same oracle inside the target (no panic, acceptance => "
                "well-formed, purity over 7 parses on two parser instances), seeded with valid memos of every route and hostile constants. "
                "Type URLs: besides a hand-picked list, the attributes object is replaced by {\"@type\": U} alone for U drawn from EVERY type URL "
                "registered in the application's interface registry (enumerated at start-up), so that nothing but the type can be the reason to refuse. "
                "Purity includes the parser's HISTORY: between two parses of the memo the same parser sees 0-3 other memos (valid, mutated, and memos "
                "of other applications such as packet-forward or wasm), and the fuzz targets compare with a parser built just now. "
                "Non-trivial = an accepted memo, a round-tripped payload, or a fuzz corpus entry that reached new coverage; distinct by memo text.",
        "assumptions": COMMON_ASSUMPTIONS + ["repeated JSON keys are judged only by the purity clause (the statement does not say which occurrence counts)"],
        "tests": [
            {"test": "TestC15RoundTrip", "quick": 5000, "thorough": 2000000},
            {"test": "TestC15Acceptance", "quick": 15000, "thorough": 3000000},
            {"test": "FuzzParser", "kind": "fuzz", "pkg": "light", "fuzztime_s": 240, "tiers": ["thorough"]},
        ],
    },
    "C19": {
        "level": "exploration",
        "rule": "rapid draws histories biased towards refused transfers of every kind (mutated memos incl. several unknown fields at once, "
                "hostile attribute values, odd receivers, failing admin messages, environment steps). Each history is executed on two "
                "independently constructed application instances in one process, and a second time on the first instance; per step the "
                "acknowledgement bytes, the ordered ABCI event list and a digest of every KV store, and at the end the exported orbiter and bank "
                "genesis, must be byte-identical. The cross-process test repeats the comparison between two separate OS processes running the "
                "same seeded history set. A third of the histories start from a rich-state prefix (both actions, several protocols and counterparties "
                "paused, non-default parameter) so that read-back order has something to reorder. TestC19FreshInstance: each case is (warm-up, history); the history is replayed on a brand-new instance, on "
                "a second brand-new instance that first executed the warm-up on a DISCARDED branch, and on the long-lived instance of the process; "
                "all three transcripts must be identical (state kept outside the store); 60% of the cases send siblings of the warm-up's valid "
                "transfers (one thing changed) with coins on the orbiter account. "
                "TestC19LabFaults (LAB world): one packet shape and one failing dependency call (returns an error, panics before, panics after its "
                "work) executed on two independently built LAB instances and again on the first - abort-or-answer, acknowledgement bytes, events and "
                "store digest must agree. Histories also advance the block (height/time) between steps. "
                "Non-trivial = a history with >= 1 error ack and >= 1 success, or a fault that fired; distinct by history / case.",
        "assumptions": COMMON_ASSUMPTIONS + ["query responses are not compared byte-wise (a proto map field has no defined wire order)"],
        "tests": [
            {"test": "TestC19InProcess", "quick": 250, "thorough": 80000},
            {"test": "TestC19FreshInstance", "quick": 120, "thorough": 32000},
            {"test": "TestC19LabFaults", "quick": 400, "thorough": 400000},
            {"test": "TestC19CrossProcess", "quick": 150, "thorough": 24000, "replicas": 2, "shards": 8},
        ],
    },
    "C14": {
        "level": "exploration",
        "rule": "rapid generators over (a) structure-aware mutations of valid memos in an orbiter-addressed packet, "
                "(b) attribute extremes, (c) raw packet bytes and odd identifiers, (d) histories driving statistics to the "
                "256-bit bound; every case goes through the whole transfer stack of the real SimApp on a state branch. "
                "Non-trivial = the input got past the ICS-20 decode and the receiver test (reached the payload parser or "
                "later); distinct = by hash of the packet data / history. Thorough tier adds a native coverage-guided campaign "
                "(go test -fuzz FuzzPacket, 180 s, all cores) over (packet data bytes, source port, source channel) through "
                "IBCAdapter.ParsePacket with the oracle inside the target: no panic, repeatable result and error text, an accepted "
                "packet's receiver decodes to the orbiter account and its memo is well-formed, an ICS-20 packet for the orbiter account "
                "is never classified as foreign traffic.",
        "assumptions": COMMON_ASSUMPTIONS,
        "tests": [
            {"test": "TestC14MutatedMemo", "quick": 6000, "thorough": 3200000},
            {"test": "TestC14Attributes", "quick": 4000, "thorough": 2400000},
            {"test": "TestC14RawPacket", "quick": 4000, "thorough": 2400000},
            {"test": "TestC14History", "quick": 300, "thorough": 128000},
            {"test": "FuzzPacket", "kind": "fuzz", "pkg": "light", "fuzztime_s": 180, "tiers": ["thorough"]},
        ],
    },
}

# Per-property text for MANIFEST.json (level text, trusted-base note, technique).
MANIFEST_TEXT = {}

PROPERTIES["C20"] = {
    "level": "exploration",
    "rule": "rapid draws (protocol id, counterparty string) pairs: every enum value and out-of-range numbers x a grammar of strings from the "
            "region where canonicity can fail (digits with signs, leading zeros, 2^32 and 2^63 boundaries, spaces, non-ASCII digits, hex/"
            "underscore/exponent forms, channel-N forms, strings containing ':', length 31/32/33, empty, NUL) plus a near-collision partner "
            "(separator shifted). Unit oracle: accepted => ParseCrossChainID(ID()) == pair, no two accepted pairs share a textual form, and for "
            "CCTP/Hyperlane the string equals FormatUint(v,10) for some v < 2^32 and equals the CounterpartyID() of the attributes for v; "
            "every canonical decimal is accepted; genesis validation agrees. Paths oracle (PROD): a non-canonical string is refused by "
            "genesis validation (forwarder pause list AND dispatcher amount/count records, source and destination role), PauseCrossChains and "
            "IsCrossChainPaused, each also in a state where the protocol is paused as a whole; after a successful pause (alone, or in a batch next "
            "to an already-paused identifier or a repetition) of a canonical id a valid probe transfer to "
            "the domain it denotes is refused. Non-trivial = an accepted CCTP/Hyperlane string or a coupled probe; distinct by (protocol, string).",
    "assumptions": COMMON_ASSUMPTIONS,
    "tests": [
        {"test": "TestC20Unit", "quick": 50000, "thorough": 16000000},
        {"test": "TestC20Paths", "quick": 1500, "thorough": 400000},
    ],
}

PROPERTIES["C16"] = {
    "level": "exploration",
    "rule": "rapid draws packet denoms from the grammar hop* base (hop in {the packet's own port/channel, other channels/ports, junk}, base in "
            "{Noble-native denoms incl. one with slashes, one that looks like a trace prefix, an ibc/<hash> voucher, foreign and malformed ones}) "
            "x source port/channel pairs (own, other channel, other port, the Noble-side id) x amount spellings ICS-20 accepts or refuses. "
            "Differential: the same packet with a neutral receiver goes through the harness-built stack WITHOUT the orbiter middleware, which "
            "shows what ICS-20 does (error / release of coin (D,A) from escrow / mint of a voucher); the orbiter run may succeed only when ICS-20 "
            "released from escrow and D is the packet denom minus the single own prefix, and then recipient delta, escrow delta and recorded "
            "statistics must be exactly (D,A). Unit test: RecoverNativeDenom vs the transfer module's ReceiverChainIsSource/ParseDenomTrace. "
            "TestC16Adapter (quick and thorough): the same packets, amounts also from a number-spelling grammar, through IBCAdapter.ParsePacket "
            "alone; for an accepted packet the coin returned equals the coin the ICS-20 application credits (its own codec, SetString(amount,0), "
            "its denomination functions). "
            "TestC16Routes: one-hop returns forwarded through Hyperlane/CCTP while coins of OTHER denominations (another collateral token's, the "
            "synthetic token's own) sit on the orbiter account and the route names the own, another or the synthetic token: an accepted packet moves, "
            "hands to the bridge and records only the credited coin (model ledger delta), a route through another denomination's token is refused. "
            "Thorough tier adds the native coverage-guided campaign FuzzPacket (180 s) with the coin oracle inside the target: an accepted "
            "packet's denom carries the packet's own port/channel prefix exactly once more than a Noble-native denom, the coin acted on is "
            "(denom minus that prefix, amount as ICS-20 reads it). "
            "Non-trivial = a denom with >= 1 hop; distinct by (denom, port, channel).",
    "assumptions": COMMON_ASSUMPTIONS,
    "tests": [
        {"test": "TestC16Differential", "quick": 5000, "thorough": 2000000},
        {"test": "TestC16Unit", "quick": 30000, "thorough": 4000000},
        {"test": "TestC16Adapter", "quick": 20000, "thorough": 4000000},
        {"test": "TestC16Routes", "quick": 600, "thorough": 800000},
        {"test": "FuzzPacket", "kind": "fuzz", "pkg": "light", "fuzztime_s": 180, "tiers": ["thorough"]},
    ],
}

PROPERTIES["C07"] = {
    "level": "exploration",
    "rule": "rapid draws packets NOT addressed to the orbiter account (receivers: users, module accounts, blocked accounts, garbage, other "
            "prefix over the orbiter bytes, truncated/padded orbiter address; data: valid ICS-20 with a COMPLETE valid orbiter payload as memo, "
            "other memos, sender-source tokens, bad amounts/denoms, arbitrary bytes, non-object JSON, LARGE packets - memos to 70000 bytes, JSON escaped "
            "inside JSON, long denominations; valid channel/port ids) after a prefix "
            "history that puts orbiter into some pause/parameter/statistics state. Differential on two sibling branches: the application's "
            "stack vs a reference stack built by the harness WITHOUT the orbiter middleware (blockibc over the ICS-20 module): ack bytes, the "
            "full event list and the digest of EVERY store must be equal, and the orbiter store and the orbiter/dust-collector balances "
            "untouched. Same differential for OnAcknowledgementPacket (success and error acks) and OnTimeoutPacket (refund paths). "
            "TestC07OtherApplications: the real middleware over a stub wrapped application that acknowledges asynchronously (nil acknowledgement), answers "
            "with its own acknowledgement type, or panics, compared with that application alone (acknowledgement, number of calls, state, events, panic). "
            "SendPacket/WriteAcknowledgement/GetAppVersion must reach a recording ICS-4 fake with identical arguments and results. "
            "A third of the packets write the five members as text with JSON spelling variants on which decoders disagree (repeated member with "
            "null/another value before or after, unknown member, member-name case, trailing/leading bytes, escapes, non-string values); whether "
            "such a packet is addressed to the orbiter account is what the ICS-20 application's own codec reads (out-of-domain cases are counted). "
            "Non-trivial = a valid ICS-20 packet, one carrying an orbiter memo, or a spelling variant; distinct by (callback, data).",
    "assumptions": COMMON_ASSUMPTIONS + ["destination channels have ibc-go's generated form channel-N (with an ill-formed one the middleware answers itself: C14 territory)"],
    "tests": [
        {"test": "TestC07Differential", "quick": 5000, "thorough": 2400000},
        {"test": "TestC07SendPath", "quick": 1000, "thorough": 200000},
        {"test": "TestC07OtherApplications", "quick": 600, "thorough": 240000},
    ],
}

PROPERTIES["C10"] = {
    "level": "exploration",
    "rule": "The Msg RPC surface is ENUMERATED at run time from the protobuf registry (every service with the cosmos.msg.v1.service option in a "
            "file of package noble.orbiter.*, each method's input type instantiated by reflection, its signer field found through "
            "cosmos.msg.v1.signer), so a later RPC is included without touching the harness. rapid draws (RPC, signer, body): signers that do "
            "not denote the authority (users, module accounts incl. orbiter and gov, empty, whitespace, garbage, other prefix over the "
            "authority bytes, truncated authority, authority with padding) x bodies (hand-written VALID bodies of the eight known messages, so "
            "the signer is the only reason to fail, and reflection-filled bodies for any message). Oracle: error and unchanged digest of every "
            "store; signed by the authority with a valid body the same message succeeds and changes state. Every RPC x signer-class cell must be "
            "hit. TestC10Wiring quantifies over the CONFIGURATION as well: the application is built through the module's dependency-injection "
            "provider with `authority:` set to a module name (gov, upgrade, authority, orbiter, ...) or to an address; the account the value "
            "denotes is derived independently (bech32 address of this chain = itself, otherwise sha256(name)[:20]) and the same matrix is run: "
            "that account succeeds with valid content, every other signer (the default simapp authority, the orbiter/gov/upgrade module accounts, "
            "the raw configuration string, users, empty) is refused with all stores unchanged. "
            "The valid bodies include the largest batches the messages take (100 and 99 identifiers; the prepared state has 100 CCTP domains paused). "
            "Every case runs under a drawn execution mode of the context (check, re-check, simulate, proposal handling, finalize). " "TestC10Replacement: ReplaceDepositForBurn with REAL valid content (an orbiter CCTP deposit attested with the harness attester key), "
            "with a drawn set of the module's own pauses in force: the authority succeeds and the request reaches CCTP with its fields, any other signer fails with all stores unchanged. "
            "Non-trivial = a case with a valid body; distinct by (configuration, RPC, signer, body).",
    "assumptions": COMMON_ASSUMPTIONS + ["the positive half (authority + valid body succeeds) covers the known messages; a message added later is covered for the signer check only",
                                         "the authority written in another bech32 spelling is a don't-care"],
    "tests": [{"test": "TestC10Authority", "quick": 4000, "thorough": 1200000},
              {"test": "TestC10Wiring", "quick": 4000, "thorough": 400000},
              {"test": "TestC10Replacement", "quick": 300, "thorough": 400000}],
}

PROPERTIES["C13"] = {
    "level": "exploration",
    "rule": "rapid draws ledgers of 0-60 entries (all source/destination protocols, counterparties incl. ones with ':' and numeric strings "
            "of different lengths, 5 denoms, amounts to 2^256-1) imported through InitGenesis, optionally followed by real transfers that create "
            "and UPDATE entries in place, and 2-6 page requests (limit 0..N+2, offset, reverse, count_total). Oracle = the ledger itself: "
            "direct lookups over the whole key pool return an entry iff the ledger has one (values equal) else NotFound; for every protocol "
            "filter and both sides (by source / by destination), for amounts and counts, a walk following next_key until empty - forwards "
            "and in reverse, for every drawn limit - visits exactly the matching set, each entry once, with equal values; reverse is the reverse "
            "of forward; offset pages are the corresponding slice of the full walk; total (count_total) is the size of the matching set; key+offset "
            "is refused. Non-trivial = a walk with a limit below the matching set (>= 3) while foreign entries exist; distinct by (ledger, request).",
    "assumptions": COMMON_ASSUMPTIONS + ["listing order is not asserted beyond reverse being the reverse of forward and limits not changing it"],
    "tests": [
        {"test": "TestC13Queries", "quick": 400, "thorough": 120000},
        {"test": "TestC13KnownReversePrefix", "kind": "plain", "quick": 1, "thorough": 1},
    ],
}

PROPERTIES["C17"] = {
    "level": "exploration",
    "rule": "(a) rapid draws histories of transfers and admin messages; the reached state is exported through AppModule.ExportGenesis, must pass "
            "ValidateGenesis, is initialised with InitGenesis into a branch whose orbiter store has NO keys, must re-export byte-identically, and "
            "a fixed battery of probe transfers plus the exported state must behave identically on the original and on the re-imported state "
            "(pause enforcement, parameter, statistics continuing from the same totals); thorough tier additionally boots a brand-new SimApp "
            "through InitChain with the exported section. (b) rapid draws genesis documents directly over the genesis types: repeated paused "
            "ids, boundary identifiers (max length, separators, NUL and non-UTF-8 bytes, non-canonical numbers), zero/negative amounts, nil "
            "members, unknown enum numbers, duplicate entries; ValidateGenesis(doc) == nil => InitGenesis(doc) does not panic, and the resulting "
            "state round-trips. The round trip of reachable states starts 20% of its cases from prior statistics of 1..250 routes and asserts that "
            "every key of the original module store is present with the same value in the re-initialised store (nothing is lost on the way). "
            "Non-trivial = a state with >= 2 populated collections / an accepted non-default document; distinct by genesis JSON.",
    "assumptions": COMMON_ASSUMPTIONS + ["a panic inside ValidateGenesis is not an acceptance: counted as an observation, not a violation"],
    "tests": [
        {"test": "TestC17RoundTrip", "quick": 400, "thorough": 160000},
        {"test": "TestC17Documents", "quick": 5000, "thorough": 2000000},
        {"test": "TestC17FreshChain", "quick": 0, "thorough": 1920, "tiers": ["thorough"]},
    ],
}
