"""Which test functions decide which property, and with what budgets.

quick / thorough = total number of rapid cases over all shards of that tier.
"""

COMMON_ASSUMPTIONS = [
    "IBC core's write-only-on-successful-ack and baseapp's per-message rollback are reproduced by the harness (DESIGN.md 2.4), not exercised through MsgRecvPacket/DeliverTx",
    "one configuration family of the external modules (harness genesis, DESIGN.md 2.3); pinned ibc-go/bank/CCTP/FTF/warp behaviour is trusted",
    "decided on the generated cases only: no absence proof",
]

HISTORY_RULE = ("rapid draws whole histories (1-25 steps quick, 1-60 thorough) of packets (constructed orbiter transfers over all "
                "routes/recipients/fee lists/denoms/amount classes, other receiver spellings, mutated and garbage memos), admin "
                "messages and environment steps (direct deposits, re-escrow, FTF pause/blacklist, CCTP burn limit), executed on a "
                "branch of the real SimApp; the oracle runs after every packet step. ")

PROPERTIES = {
    "C01": {
        "level": "exploration",
        "rule": HISTORY_RULE + "Non-trivial = an ICS-20-valid packet whose receiver decodes to the orbiter account; distinct by "
                "(route, denom, amount class, recipient, fee count, dust present, outcome, receiver spelling, raw memo).",
        "assumptions": COMMON_ASSUMPTIONS,
        "tests": [{"test": "TestC01History", "quick": 400, "thorough": 48000}],
    },
    "C02": {
        "level": "exploration",
        "rule": HISTORY_RULE + "Non-trivial = a successful orbiter transfer, whose whole-ledger delta (all accounts and total supply) "
                "is compared with the reference model's expected delta; distinct by (route, denom, amount class, recipient, fee "
                "count, dust present).",
        "assumptions": COMMON_ASSUMPTIONS,
        "tests": [{"test": "TestC02History", "quick": 400, "thorough": 48000}],
    },
    "C14": {
        "level": "exploration",
        "rule": "rapid generators over (a) structure-aware mutations of valid memos in an orbiter-addressed packet, "
                "(b) attribute extremes, (c) raw packet bytes and odd identifiers, (d) histories driving statistics to the "
                "256-bit bound; every case goes through the whole transfer stack of the real SimApp on a state branch. "
                "Non-trivial = the input got past the ICS-20 decode and the receiver test (reached the payload parser or "
                "later); distinct = by hash of the packet data / history.",
        "assumptions": COMMON_ASSUMPTIONS,
        "tests": [
            {"test": "TestC14MutatedMemo", "quick": 6000, "thorough": 800000},
            {"test": "TestC14Attributes", "quick": 4000, "thorough": 600000},
            {"test": "TestC14RawPacket", "quick": 4000, "thorough": 600000},
            {"test": "TestC14History", "quick": 300, "thorough": 32000},
        ],
    },
}

# Per-property text for MANIFEST.json (level text, trusted-base note, technique).
MANIFEST_TEXT = {}
