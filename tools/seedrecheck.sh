#!/bin/sh
# Re-run the quick check of some properties against an already confirmed seeded change:
#   tools/seedrecheck.sh <seed-dir-name> C06[,C11]      e.g. tools/seedrecheck.sh C06-r9 C06
# (scratch worktree of /repo under /tmp, patch applied, VERIF_REPO pointed at it, removed afterwards)
name=$1; props=$2
wt=/tmp/seedv/re-$name
git -C /repo worktree remove --force $wt 2>/dev/null; rm -rf $wt; mkdir -p /tmp/seedv
git -C /repo worktree add -q --detach $wt HEAD || exit 2
( cd $wt && git apply /verif/seeded/$name/patch.diff ) || { echo "patch does not apply"; exit 2; }
for p in $(echo $props | tr , ' '); do
  VERIF_REPO=$wt VERIF_EVIDENCE_DIR=/tmp/seedv/re-out-$name/evidence VERIF_REPLAY_OUT=/tmp/seedv/re-out-$name/replays /verif/check run $p --tier quick 2>&1 | grep -a "^OK\|^VIOLATION\|^INCONCLUSIVE\|VIOLATION C" | cut -c1-400 | sed "s/^/[$name $p] /"
done
git -C /repo worktree remove --force $wt; rm -rf $wt /tmp/seedv/re-out-$name
