#!/usr/bin/env python3
"""Write a C14 regression replay file: tools/mkcase.py <out> <memo-json> [denom] [amount]"""
import json, sys
out, memo = sys.argv[1], sys.argv[2]
denom = sys.argv[3] if len(sys.argv) > 3 else "uusdc"
amount = sys.argv[4] if len(sys.argv) > 4 else "1000000"
doc = {"property": "C14", "test": "TestC14MutatedMemo",
       "case": {"transfer": {"channel": 0, "denom": denom, "amount": amount, "route": {"kind": "internal"}, "raw_memo": memo}}}
json.dump(doc, open(out, "w"), indent=1)
