#!/usr/bin/env python3
"""Run the repository's pinned test suite (guard off) and compare with /root/.vp/BASELINE.json.
Usage: tools/baseline.py [repo]   exit 0 iff every stable_pass test passes."""
import json, os, subprocess, sys
repo = sys.argv[1] if len(sys.argv) > 1 else "/repo"
base = json.load(open("/root/.vp/BASELINE.json"))
want = set(base["stable_pass"])
env = dict(os.environ); env.pop("GOFLAGS", None); env["GOPROXY"] = "off"
passed, failed = set(), set()
for m in [".", "./e2e", "./simapp"]:
    d = os.path.join(repo, m)
    p = subprocess.run(["go", "test", "-json", "-vet=off", "-count=1", "-timeout", "25m", "./..."], cwd=d, env=env,
                       stdout=subprocess.PIPE, stderr=subprocess.STDOUT, text=True)
    for line in p.stdout.splitlines():
        try:
            ev = json.loads(line)
        except ValueError:
            continue
        if ev.get("Test") and ev.get("Action") in ("pass", "fail"):
            name = "%s::%s" % (ev["Package"], ev["Test"])
            (passed if ev["Action"] == "pass" else failed).add(name)
missing = sorted(want - passed)
print("baseline: %d/%d stable tests pass; %d other failures" % (len(want & passed), len(want), len(failed - want)))
for m in missing[:40]:
    print("  NOT PASSING:", m)
sys.exit(1 if missing else 0)
