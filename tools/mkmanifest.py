#!/usr/bin/env python3
"""Regenerate MANIFEST.json from checks_table.py (and validate it against the schema)."""
import json, os, sys
VERIF = os.path.dirname(os.path.dirname(os.path.abspath(__file__)))
sys.path.insert(0, VERIF)
from checks_table import PROPERTIES, MANIFEST_TEXT  # noqa

props = [json.loads(l) for l in open(os.path.join(VERIF, "properties.jsonl"))]
checks = []
na = []
for p in props:
    pid = p["id"]
    if pid in PROPERTIES:
        d = PROPERTIES[pid]
        mt = MANIFEST_TEXT.get(pid, {})
        checks.append({
            "property_id": pid,
            "quick_cmd": "./check run %s --tier quick" % pid,
            "thorough_cmd": "./check run %s --tier thorough" % pid,
            "evidence_file": "/verif/evidence/%s.json" % pid,
            "replay_cmd_template": "./check replay {path}",
            "engine": "rapid-harness",
            "level_claimed": {
                "category": d.get("level", "exploration"),
                "text": mt.get("text", d["rule"]),
                "design_ref": "DESIGN.md section 3, " + pid,
            },
            "level_note": mt.get("note", "; ".join(d.get("assumptions", []))),
            "technique": mt.get("technique", "property-based testing (rapid) against an explicit oracle"),
        })
    else:
        na.append({"property_id": pid, "reason": MANIFEST_TEXT.get(pid, {}).get("na", "check not built yet in this session (property is applicable; see DESIGN.md section 3)")})
m = {
    "version": 1,
    "setup_cmd": "./check setup",
    "hooks": {
        "guard": "verif",
        "enable": "no hooks are needed: every observation point is reachable through exported constructors, routers, bank balances and events (DESIGN.md section 7); the build tag 'verif' is reserved and unused",
        "baseline_off_cmd": "python3 /verif/tools/baseline.py /repo",
        "source_commits": [],
        "add_only": True,
    },
    "engines": [
        {"name": "rapid-harness", "path": "/verif/harness", "serves_properties": sorted(PROPERTIES.keys()),
         "kind_free_text": "Go test binary (pgregory.net/rapid v1.3.0) that drives the real SimApp in-process: stateless properties, "
                           "generated histories with a reference model, fault enumeration, differential and metamorphic oracles; "
                           "driver ./check builds it from /repo's working tree in workspace mode on every invocation"},
    ],
    "checks": checks,
    "notes": "Exit codes of every command: 0 held on everything explored, 1 violation (VIOLATION line + replay file), 2 inconclusive "
             "(build failure, timeout, starved generator). VERIF_SEED selects the rapid seeds; VERIF_REPO can point the build at a scratch copy of the repository.",
    "not_applicable": na,
}
out = os.path.join(VERIF, "MANIFEST.json")
json.dump(m, open(out, "w"), indent=1)
try:
    import jsonschema
    jsonschema.validate(m, json.load(open("/root/.vp/MANIFEST.schema.json")))
    print("MANIFEST.json valid: %d checks, %d not_applicable" % (len(checks), len(na)))
except ImportError:
    print("MANIFEST.json written (jsonschema not available to validate)")
