#!/usr/bin/env python3
"""Sensitivity runs: apply a deliberate breakage to a scratch worktree of /repo (outside /repo and
/verif), run the quick checks of the targeted properties against it (VERIF_REPO), report the exit
codes, remove the worktree.

  tools/sens.py list
  tools/sens.py run <mutant-name>... [--props C01,C02] [--tier quick]
  tools/sens.py patch <patch.diff> --props C01,C02        (a seeded change from /verif/seeded)
  tools/sens.py all                                        (every built-in mutant, sequentially)
"""
import json
import os
import shutil
import subprocess
import sys
import time

VERIF = os.path.dirname(os.path.dirname(os.path.abspath(__file__)))
SCRATCH = "/tmp/verif-mut"

# (name, properties expected to catch it, file, old, new)
MUTANTS = [
    # the D17 repair undone: a panic of the Hyperlane modules crosses the receive path again
    ("hyp-no-panic-recovery", "C14", "controller/forwarding/hyperlane.go",
     "			err = fmt.Errorf(\"hyperlane remote transfer panicked: %v\", r)\n", "			panic(r)\n"),
    ("drop-sweep", "C11,C03", "keeper/component/adapter/adapter.go",
     "	if err := a.clearOrbiterBalance(ctx, denom); err != nil {\n		return err\n	}\n", ""),
    ("skip-initial-conditions", "C11,C01", "keeper/component/forwarder/forwarder.go",
     "	return f.validateInitialConditions(ctx, packet)\n", "	return nil\n"),
    ("cctp-source-amount", "C02,C05", "controller/forwarding/cctp.go",
     "			Amount:            transferAttr.DestinationAmount(),\n			DestinationDomain: cctpAttr.DestinationDomain,\n			MintRecipient:     cctpAttr.MintRecipient,\n			BurnToken:         transferAttr.DestinationDenom(),\n		}\n\n		_, err := c.handler.DepositForBurn(",
     "			Amount:            transferAttr.SourceAmount(),\n			DestinationDomain: cctpAttr.DestinationDomain,\n			MintRecipient:     cctpAttr.MintRecipient,\n			BurnToken:         transferAttr.DestinationDenom(),\n		}\n\n		_, err := c.handler.DepositForBurn("),
    ("success-ack-on-process-failure", "C03", "entrypoint/ibc_middleware.go",
     "	err = i.payloadAdapter.ProcessPayload(ctx, orbiterPacket)\n	if err != nil {\n		return newErrorAcknowledgement(err)\n	}\n",
     "	err = i.payloadAdapter.ProcessPayload(ctx, orbiterPacket)\n	if err != nil {\n		return ack\n	}\n"),
    ("swallow-final-event-error", "C03", "keeper/component/adapter/adapter.go",
     "		return errorsmod.Wrap(err, \"failed to emit payload processed event\")\n", "		return nil\n"),
    ("fee-gt-instead-of-gte", "C04", "controller/action/fee.go",
     "feesToDistribute.Total.GTE(transferAttr.DestinationAmount())", "feesToDistribute.Total.GT(transferAttr.DestinationAmount())"),
    ("fee-ceil", "C04", "controller/action/fee.go",
     "	return fee.QuoRaw(actiontypes.BPSNormalizer), nil\n", "	return fee.AddRaw(actiontypes.BPSNormalizer - 1).QuoRaw(actiontypes.BPSNormalizer), nil\n"),
    ("fee-max-recipients-off-by-one", "C04", "types/controller/action/fee.go",
     "	if len(f.FeesInfo) > MaxFeeRecipients {", "	if len(f.FeesInfo) > MaxFeeRecipients+1 {"),
    ("fee-compounding", "C04,C06", "controller/action/fee.go",
     "			feeAmount, err = ComputeFeeAmount(transferAmount, uint64(feeType.BasisPoints.Value))",
     "			feeAmount, err = ComputeFeeAmount(transferAmount.Sub(fees.Total), uint64(feeType.BasisPoints.Value))"),
    ("cctp-caller-is-recipient", "C05", "controller/forwarding/cctp.go",
     "			DestinationCaller: cctpAttr.DestinationCaller,\n", "			DestinationCaller: cctpAttr.MintRecipient,\n"),
    ("replace-swaps-fields", "C05", "keeper/component/forwarder/msg_server.go",
     "		NewDestinationCaller: msg.NewDestinationCaller,\n		NewMintRecipient:     msg.NewMintRecipient,\n",
     "		NewDestinationCaller: msg.NewMintRecipient,\n		NewMintRecipient:     msg.NewDestinationCaller,\n"),
    ("hyp-drop-custom-hook", "C05", "controller/forwarding/hyperlane.go",
     "	if len(hypAttr.CustomHookId) != 0 {", "	if len(hypAttr.CustomHookId) != 0 && hypAttr.CustomHookMetadata != \"\" {"),
    ("actions-reverse-order", "C06", "keeper/component/dispatcher/dispatcher.go",
     "	for _, action := range actions {\n		actionID := action.ID()\n",
     "	for i := len(actions) - 1; i >= 0; i-- {\n		action := actions[i]\n		actionID := action.ID()\n"),
    ("stop-after-first-action", "C06,C02", "keeper/component/dispatcher/dispatcher.go",
     "			return errorsmod.Wrapf(err, \"error dispatching action %s packet\", actionID)\n		}\n	}\n",
     "			return errorsmod.Wrapf(err, \"error dispatching action %s packet\", actionID)\n		}\n\n		break\n	}\n"),
    ("event-before-delegating", "C07", "entrypoint/ibc_middleware.go",
     "	if orbiterPacket == nil {\n		return i.IBCModule.OnRecvPacket(ctx, packet, relayer)\n	}\n",
     "	if orbiterPacket == nil {\n		ctx.EventManager().EmitEvent(sdk.NewEvent(\"orbiter_skip\"))\n\n		return i.IBCModule.OnRecvPacket(ctx, packet, relayer)\n	}\n"),
    ("skip-crosschain-pause-check", "C08", "keeper/component/forwarder/forwarder.go",
     "	return f.validateCrossChain(ctx, protocolID, counterpartyID)\n}\n\nfunc (f *Forwarder) validatePacket(", "	return nil\n}\n\nfunc (f *Forwarder) validatePacket("),
    ("unpause-only-first-id", "C08", "keeper/component/forwarder/forwarder.go",
     "					protocolID,\n					ID,\n				)\n			}\n		}\n\n		return nil\n	}\n", None),  # filled below
    ("executor-ignores-pause", "C09", "keeper/component/executor/executor.go",
     "	if isPaused {\n		return fmt.Errorf(", "	if isPaused && id == core.ACTION_UNSUPPORTED {\n		return fmt.Errorf("),
    ("no-authority-update-params", "C10,C18", "keeper/component/adapter/msg_server.go",
     "	if err := s.RequireAuthority(msg.Signer); err != nil {\n		return nil, err\n	}\n", ""),
    ("no-authority-unpause-crosschains", "C10", "keeper/component/forwarder/msg_server.go", None, None),  # filled below
    ("stats-before-forwarding", "C12", "keeper/component/dispatcher/dispatcher.go", None, None),  # filled below
    ("stats-outgoing-is-source", "C12", "keeper/component/dispatcher/stats.go",
     "		ddas[0].AmountDispatched.Outgoing = destAmount\n", "		ddas[0].AmountDispatched.Outgoing = sourceAmount\n"),
    ("dest-index-mod-3", "C13", "keeper/component/dispatcher/state.go",
     "				return int32(ccID.GetProtocolId()), nil\n			},\n		),\n		ByDestinationCrossChainID",
     "				return int32(ccID.GetProtocolId()) % 3, nil\n			},\n		),\n		ByDestinationCrossChainID"),
    ("fee-info-nil-guard-removed", "C14", "types/controller/action/fee.go",
     "	if f == nil {\n		return core.ErrNilPointer.Wrap(\"fee info\")\n	}\n\n	if f.GetFeeType() == nil {", "	if f.GetFeeType() == nil {"),
    ("null-array-check-removed", "C14", "controller/adapter/generic_parsers.go",
     "	if containsNullElement(jsonData) {", "	if false && containsNullElement(jsonData) {"),
    ("unknown-fields-allowed-root", "C15", "controller/adapter/generic_parsers.go",
     "	if len(jsonData) != 1 {", "	if len(jsonData) < 1 {"),
    ("recover-denom-without-native-check", "C16", "controller/adapter/utils.go",
     "	if !denomTrace.IsNativeDenom() {\n		return \"\", errors.New(\"orbiter supports only native coins\")\n	}\n", "	_ = denomTrace\n"),
    ("export-omits-paused-actions", "C17", "keeper/component/executor/genesis.go",
     "		PausedActionIds: paused,\n", "		PausedActionIds: paused[:0],\n"),
    ("passthrough-check-gte", "C18", "keeper/component/adapter/adapter.go",
     "	if uint64(len(passthroughPayload)) > uint64(maxSize) {", "	if uint64(len(passthroughPayload)) >= uint64(maxSize) && len(passthroughPayload) > 0 {"),
    ("params-not-stored", "C18,C17", "keeper/component/adapter/msg_server.go",
     "	if err := s.SetParams(ctx, msg.Params); err != nil {\n		return nil, err\n	}\n", "	_ = s.SetParams\n"),
    ("pointer-in-ack-text", "C19", "entrypoint/ibc_middleware.go",
     "			Error: errorsmod.Wrap(err, \"orbiter-middleware error\").Error(),", "			Error: errorsmod.Wrap(err, fmt.Sprintf(\"orbiter-middleware error %p\", &err)).Error(),"),
    ("id-protocol-mod-4", "C20,C13", "types/core/id.go",
     "	return fmt.Sprintf(\"%d%s%s\", i.ProtocolId.Uint32(), crosschainIDSeparator, i.CounterpartyId)",
     "	return fmt.Sprintf(\"%d%s%s\", i.ProtocolId.Uint32()%4, crosschainIDSeparator, i.CounterpartyId)"),
    ("isinteger-atoi-again", "C20", "types/core/id.go",
     "	v, err := strconv.ParseUint(s, 10, 32)\n\n	return err == nil && strconv.FormatUint(v, 10) == s\n", "	_, err := strconv.Atoi(s)\n\n	return err == nil\n"),
]


def fix_special(repo):
    """Mutants whose edit is easier to express programmatically."""
    out = {}
    # unpause-only-first-id
    p = os.path.join(repo, "keeper/component/forwarder/forwarder.go")
    s = open(p).read()
    marker = "func (f *Forwarder) unpauseCrossChains("
    i = s.index(marker)
    body = s[i:]
    body2 = body.replace("	for _, ID := range counterpartyIDs {\n", "	for _, ID := range counterpartyIDs[:1] {\n", 1)
    out["unpause-only-first-id"] = (p, s[:i] + body2)
    # no-authority-unpause-crosschains
    p = os.path.join(repo, "keeper/component/forwarder/msg_server.go")
    s = open(p).read()
    i = s.index("func (s msgServer) UnpauseCrossChains(")
    body = s[i:].replace("	if err := s.RequireAuthority(msg.Signer); err != nil {\n		return nil, err\n	}\n", "", 1)
    out["no-authority-unpause-crosschains"] = (p, s[:i] + body)
    # stats-before-forwarding
    p = os.path.join(repo, "keeper/component/dispatcher/dispatcher.go")
    s = open(p).read()
    stats = ("	if err := d.UpdateStats(ctx, transferAttr, payload.Forwarding); err != nil {\n"
             "		// NOTE: we don't want to interrupt a dispatch in case the stats are not updated.\n"
             "		d.logger.Error(\"Error updating Orbiter statistics\", \"error\", err)\n	}\n\n")
    fwd = ("	if err := d.dispatchForwarding(ctx, transferAttr, payload.Forwarding); err != nil {\n"
           "		return errorsmod.Wrap(err, \"forwarding dispatch failed\")\n	}\n\n")
    assert stats in s and fwd in s
    s2 = s.replace(stats, "").replace(fwd, stats + fwd)
    out["stats-before-forwarding"] = (p, s2)
    return out


def sh(cmd, **kw):
    return subprocess.run(cmd, shell=True, stdout=subprocess.PIPE, stderr=subprocess.STDOUT, text=True, **kw)


def make_tree(name):
    d = os.path.join(SCRATCH, name)
    sh("git -C /repo worktree remove --force %s" % d)
    shutil.rmtree(d, ignore_errors=True)
    os.makedirs(SCRATCH, exist_ok=True)
    r = sh("git -C /repo worktree add -q --detach %s HEAD" % d)
    if r.returncode != 0:
        raise SystemExit(r.stdout)
    return d


def drop_tree(d):
    sh("git -C /repo worktree remove --force %s" % d)
    shutil.rmtree(d, ignore_errors=True)


def apply_builtin(repo, m):
    name, props, rel, old, new = m
    special = fix_special(repo)
    if name in special:
        p, content = special[name]
        open(p, "w").write(content)
        return
    p = os.path.join(repo, rel)
    s = open(p).read()
    if old not in s:
        raise SystemExit("mutant %s: pattern not found in %s" % (name, rel))
    s = s.replace(old, new, 1)
    if name == "pointer-in-ack-text" and '"fmt"' not in s:
        s = s.replace('import (\n	"errors"\n', 'import (\n	"errors"\n	"fmt"\n', 1)
    open(p, "w").write(s)


def run_checks(repo, props, tier):
    res = {}
    for pid in props:
        out = os.path.join(SCRATCH, "out-%d" % os.getpid())
        env = dict(os.environ, VERIF_REPO=repo, VERIF_EVIDENCE_DIR=os.path.join(out, "evidence"), VERIF_REPLAY_OUT=os.path.join(out, "replays"))
        t0 = time.time()
        r = subprocess.run([os.path.join(VERIF, "check"), "run", pid, "--tier", tier], env=env, cwd=VERIF,
                           stdout=subprocess.PIPE, stderr=subprocess.STDOUT, text=True, errors="replace")
        line = [l for l in r.stdout.splitlines() if l.startswith(("VIOLATION", "OK ", "INCONCLUSIVE"))]
        res[pid] = {"exit": r.returncode, "wall_s": round(time.time() - t0), "line": (line[-1] if line else "")[:200]}
    # evidence and replay files of runs against a mutant go to the scratch directory
    if "--keep" not in sys.argv:
        shutil.rmtree(os.path.join(SCRATCH, "out-%d" % os.getpid()), ignore_errors=True)
    return res


def main():
    a = sys.argv[1:]
    if not a or a[0] == "list":
        for m in MUTANTS:
            print("%-36s %-10s %s" % (m[0], m[1], m[2]))
        return
    tier = "quick"
    if "--tier" in a:
        tier = a[a.index("--tier") + 1]
    props_override = None
    if "--props" in a:
        props_override = a[a.index("--props") + 1].split(",")
    results = {}
    if a[0] == "patch":
        patch = os.path.abspath(a[1])
        d = make_tree("patch-%d" % os.getpid())
        try:
            r = sh("git -C %s apply %s" % (d, patch))
            if r.returncode != 0:
                raise SystemExit("patch does not apply: " + r.stdout)
            results[os.path.basename(os.path.dirname(patch))] = run_checks(d, props_override or [], tier)
        finally:
            drop_tree(d)
    else:
        names = [m[0] for m in MUTANTS] if a[0] == "all" else [x for x in a[1:] if not x.startswith("--") and x not in (tier, ",".join(props_override or []))]
        for name in names:
            m = [x for x in MUTANTS if x[0] == name]
            if not m:
                print("unknown mutant", name)
                continue
            m = m[0]
            d = make_tree(name)
            try:
                apply_builtin(d, m)
                b = sh("cd %s && GOFLAGS= GOPROXY=off go build ./... 2>&1 | tail -5" % d)
                if b.stdout.strip():
                    results[name] = {"build": b.stdout.strip()[:300]}
                    print(name, "DOES NOT BUILD", b.stdout.strip()[:300], flush=True)
                    continue
                results[name] = run_checks(d, props_override or m[1].split(","), tier)
                print(name, json.dumps(results[name]), flush=True)
            finally:
                drop_tree(d)
    print(json.dumps(results, indent=1))


if __name__ == "__main__":
    main()
