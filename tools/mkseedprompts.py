#!/usr/bin/env python3
"""Prepare a round of independently seeded changes.

  tools/mkseedprompts.py <round-dir> [IDs...]      e.g. tools/mkseedprompts.py /tmp/seed9 C01 C02

For every property id: a scratch git worktree of /repo at <round-dir>/<ID>, an output directory
<round-dir>/<ID>-out with property.txt and PROMPT.txt. The prompt contains the property text and
one-paragraph descriptions of the changes earlier sub-agents delivered for the same property (so that
the new one differs) - nothing else from /verif."""
import glob, json, os, subprocess, sys

VERIF = os.path.dirname(os.path.dirname(os.path.abspath(__file__)))

TEMPLATE = """You are working on a scratch git worktree of the Go repository noble-assets/orbiter located at @WT@ (a Cosmos SDK module: an IBC middleware plus keeper that parses cross-chain transfer payloads from the ICS-20 memo, runs actions such as fees, and forwards funds via CCTP, Hyperlane or an internal bank transfer). Work ONLY inside @WT@ and @WT@-out. Never read or write /repo or /verif, and do not look for any verification tooling elsewhere on the machine: your work must be independent.

Environment: no network. Build/test offline with `unset GOFLAGS; export GOPROXY=off`. From the worktree root, `go build ./...` and `go test ./...` work (Go workspace mode; the root module takes ~1-2 min the first time). The `simapp` sub-module builds the full application (`cd simapp && go build ./...`); `simapp.NewSimApp(log.NewNopLogger(), dbm.NewMemDB(), nil, true, <empty app options>, baseapp.SetChainID("x"))` can be constructed in-process inside a Go test placed in the simapp module if you want a full-stack demonstration, but a component-level demonstration with the repository's own mocks (testutil/mocks) is fine too. The e2e module needs Docker and cannot run: ignore it.

Here is a semantic property the code is supposed to satisfy (also in @WT@-out/property.txt):

@PROPERTY@

YOUR TASK: produce ONE realistic change to the repository's NON-TEST source code that BREAKS this property, such that
 1. the repository still compiles (`go build ./...` in the root and in simapp),
 2. the existing test suite still passes unchanged (`go test ./...` in the root module),
 3. the breakage needs something SPECIFIC to manifest - a particular multi-step sequence of operations, an unusual input or encoding, a particular prior state, a fault at a particular point, a particular execution context, or two cooperating code sites that each look fine alone - rather than being exposed at once by any ordinary use of the module. Subtle is better than blatant: think of a plausible refactoring slip, an off-by-one, a wrong variable, a missing case, a check moved to the wrong place, an early return; no "sabotage" comments or markers, the diff should look like something a developer could have committed by mistake.
Read the relevant code first (entrypoint/, controller/, keeper/, keeper/component/*, types/, depinject.go, module.go) so that the change really breaks THIS property (and preferably not the trivially-visible behaviour of everything).

Other engineers have already delivered the following changes for this same property. Yours must differ from ALL of them in code site AND in mechanism AND in what it needs in order to manifest:

@PREDECESSORS@

@ADVICE@

DELIVERABLES in @WT@-out/ :
 - patch.diff : output of `git diff` for your source change (non-test files only), applicable with `git apply` on a clean checkout of the same commit.
 - demo/ : one or more NEW Go test files (keep their repo-relative paths under demo/, e.g. demo/keeper/component/forwarder/seed_demo_test.go) that FAIL when the patch is applied and PASS on the clean tree, plus RUN.txt with the exact command(s) to run them from the worktree root. The demonstration must exercise the breakage through real code paths of the repository (mocks from testutil/ are acceptable for external modules).
 - meta.json : {"property": "@ID@", "summary": "...what the change does...", "needs_to_manifest": "...the specific condition...", "files_touched": [...], "verified": {"build": "...", "suite_with_patch": "pass/fail + command", "demo_with_patch": "fail (expected)", "demo_without_patch": "pass"}}
Before finishing, VERIFY all of it yourself: apply patch -> build ok, full suite passes, demo fails; revert patch (`git apply -R patch.diff` or `git checkout -- .`, keeping the demo files) -> demo passes. NEVER use `git stash`: its ref is shared by all worktrees of this repository and other engineers are working in sibling worktrees at the same time. Leave the worktree with the patch APPLIED and the demo test files copied into place. Report briefly what you changed and the verification results. Spend at most about 35 minutes. If after honest effort you cannot find a change that keeps the suite green, say so and deliver your best attempt with an accurate meta.json.
"""

ADVICE = """Directions none of the earlier changes used much, as inspiration (pick whatever fits the property, or something else entirely): behaviour that depends on the execution context (block height or time, the gas meter, the event manager, check/simulate mode, a context value); an error that is converted, wrapped or compared (errors.Is / sentinel) so that one particular failure is mistaken for another; a value that is correct at one call site and stale at another (computed before a step that changes it); a rule applied on one of two paths that must agree (message vs genesis, query vs execution, validation vs execution, one route vs another, first element vs later elements of a list); aliasing (a slice, pointer or coin shared between two holders and modified by one); a default that differs from the explicit value (nil vs empty, zero vs unset, omitted proto field); a boundary of a type, a collection, a key encoding or an identifier grammar; an interaction between two features (fees and passthrough payload, pause and genesis, dust and a denomination-changing action, two transfers in the same block)."""


ADVICE2 = """Directions that the earlier changes used least, as inspiration (pick whatever fits the property, or something else entirely): the configuration and state of the modules AROUND orbiter as the trigger (Hyperlane: hook types that charge fees, ISMs, token types, mailbox settings, router gas; CCTP: per-message burn limits, paused burning/messaging, token pairs, attesters; fiat-tokenfactory: pause, blocklist, minter allowances; bank: send restrictions, blocked module accounts, denom metadata, SendEnabled; ICS-20: send/receive switches, escrow accounting, channel/port identifiers) - i.e. a change in orbiter that is wrong only under a third-party configuration other than the simplest one; the module's own wiring and configuration (depinject.go, module.go, app.yaml: authority, which controllers are registered, service registration, the order of middleware); the gRPC/query path as opposed to keeper getters; the contents and order of events and logs; execution context (block height/time, gas, simulate/check mode); numeric boundaries between 2^31 and 2^256; exactly-N-operations effects (the 2nd, the 100th, the 101st); cleanup paths (what is deleted, reset or left behind when something is removed, unpaused, set back to its default)."""


def main():
    global ADVICE
    if os.environ.get("SEED_ADVICE") == "2":
        ADVICE = ADVICE2
    rd = os.path.abspath(sys.argv[1])
    ids = sys.argv[2:] or ["C%02d" % i for i in range(1, 21)]
    props = {}
    for line in open(os.path.join(VERIF, "properties.jsonl")):
        d = json.loads(line)
        props[d["id"]] = d
    os.makedirs(rd, exist_ok=True)
    for pid in ids:
        p = props[pid]
        text = "%s - %s\n\n%s\n\nQuantified over: %s\n" % (p["id"], p["title"], p["statement"], p["quantifier"]["text"])
        pred = []
        for m in sorted(glob.glob(os.path.join(VERIF, "seeded", "*", "meta.json"))):
            try:
                meta = json.load(open(m))
            except Exception:
                continue
            if meta.get("property") != pid:
                continue
            s = (meta.get("summary") or "").replace("\n", " ")
            n = (meta.get("needs_to_manifest") or "").replace("\n", " ")
            pred.append(" - %s%s" % (s[:420], (" NEEDS: " + n[:200]) if n else ""))
        wt = os.path.join(rd, pid)
        out = wt + "-out"
        subprocess.run("git -C /repo worktree remove --force %s" % wt, shell=True, stderr=subprocess.DEVNULL)
        subprocess.run("rm -rf %s %s" % (wt, out), shell=True)
        subprocess.check_call("git -C /repo worktree add -q --detach %s HEAD" % wt, shell=True)
        os.makedirs(out)
        open(os.path.join(out, "property.txt"), "w").write(text)
        prompt = (TEMPLATE.replace("@WT@", wt).replace("@ID@", pid).replace("@PROPERTY@", text)
                  .replace("@PREDECESSORS@", "\n".join(pred) or " (none)").replace("@ADVICE@", ADVICE))
        open(os.path.join(out, "PROMPT.txt"), "w").write(prompt)
        print(pid, len(pred), "predecessors,", len(prompt), "chars")


if __name__ == "__main__":
    main()
