#!/usr/bin/env python3
"""Confirm a seeded change independently and run the checks against it.

  tools/seedcheck.py <ID> <out-dir> --props C06[,C04] [--name C06]

<out-dir> holds patch.diff, demo/ (new test files with repo-relative paths, RUN.txt) and meta.json
as delivered by a sub-agent. Steps, all in a fresh scratch worktree of /repo outside /repo and
/verif: demo on the clean tree (must pass), apply the patch, build, demo (must fail), the pinned
273-test suite (must pass), then the quick checks of the given properties with VERIF_REPO pointing
at the patched tree. The result is written to /verif/seeded/<name>/ (patch.diff, demo/, meta.json
with a 'confirmed' block)."""
import json, os, shutil, subprocess, sys, time

VERIF = os.path.dirname(os.path.dirname(os.path.abspath(__file__)))


def sh(cmd, cwd=None, timeout=3600, env=None):
    e = dict(os.environ); e.pop("GOFLAGS", None); e["GOPROXY"] = "off"
    if env: e.update(env)
    r = subprocess.run(cmd, shell=True, cwd=cwd, env=e, stdout=subprocess.PIPE, stderr=subprocess.STDOUT, text=True, errors="replace", timeout=timeout)
    return r.returncode, r.stdout


def main():
    pid, out = sys.argv[1], os.path.abspath(sys.argv[2])
    props = sys.argv[sys.argv.index("--props") + 1].split(",")
    name = sys.argv[sys.argv.index("--name") + 1] if "--name" in sys.argv else pid
    wt = "/tmp/seedv/%s" % name
    sh("git -C /repo worktree remove --force %s" % wt); shutil.rmtree(wt, ignore_errors=True)
    os.makedirs("/tmp/seedv", exist_ok=True)
    rc, o = sh("git -C /repo worktree add -q --detach %s HEAD" % wt)
    assert rc == 0, o
    confirmed = {}
    try:
        demo = os.path.join(out, "demo")
        tests = []
        for root, _, files in os.walk(demo):
            for f in files:
                if f.endswith("_test.go"):
                    rel = os.path.relpath(os.path.join(root, f), demo)
                    os.makedirs(os.path.dirname(os.path.join(wt, rel)), exist_ok=True)
                    shutil.copyfile(os.path.join(root, f), os.path.join(wt, rel))
                    tests.append(rel)
        pkgs = sorted({"./" + os.path.dirname(t) for t in tests})
        def run_demo():
            res = []
            for p in pkgs:
                mod = wt
                pk = p
                if p.startswith("./simapp"):
                    mod, pk = os.path.join(wt, "simapp"), "./" + os.path.relpath(os.path.join(wt, p), os.path.join(wt, "simapp"))
                # run only the test functions defined in the demo files of this package
                names = []
                for t in tests:
                    if "./" + os.path.dirname(t) == p:
                        for line in open(os.path.join(wt, t)):
                            if line.startswith("func Test"):
                                names.append(line.split("(")[0][5:])
                rc, o = sh("go test -count=1 -run '^(%s)$' %s 2>&1 | tail -25" % ("|".join(names), pk), cwd=mod)
                res.append((p, "FAIL" in o or "panic:" in o, o[-1500:]))
            return res
        clean = run_demo()
        confirmed["demo_on_clean_tree"] = "pass" if not any(f for _, f, _ in clean) else "FAIL: " + clean[0][2][-600:]
        rc, o = sh("git apply %s" % os.path.join(out, "patch.diff"), cwd=wt)
        confirmed["patch_applies"] = rc == 0
        if rc != 0:
            confirmed["apply_error"] = o[-500:]
            raise SystemExit
        rc, o = sh("go build ./... && cd simapp && go build ./...", cwd=wt)
        confirmed["build_with_patch"] = "ok" if rc == 0 else o[-800:]
        patched = run_demo()
        confirmed["demo_with_patch"] = "fails (expected)" if any(f for _, f, _ in patched) else "PASSES (demo does not show the breakage)"
        confirmed["demo_output_with_patch"] = patched[0][2][-700:] if patched else ""
        rc, o = sh("python3 %s/tools/baseline.py %s" % (VERIF, wt), timeout=3600)
        confirmed["suite_with_patch"] = o.strip().splitlines()[0] if o.strip() else "?"
        confirmed["suite_ok"] = rc == 0
        # our checks against the patched tree
        res = {}
        outdir = "/tmp/seedv/out-%s" % name
        for p in props:
            env = {"VERIF_REPO": wt, "VERIF_EVIDENCE_DIR": outdir + "/evidence", "VERIF_REPLAY_OUT": outdir + "/replays"}
            t0 = time.time()
            rc, o = sh("%s/check run %s --tier quick" % (VERIF, p), cwd=VERIF, env=env)
            line = [l for l in o.splitlines() if l.startswith(("VIOLATION", "OK ", "INCONCLUSIVE"))]
            res[p] = {"exit": rc, "wall_s": round(time.time() - t0), "line": (line[-1] if line else "")[:160]}
        confirmed["checks"] = res
        shutil.rmtree(outdir, ignore_errors=True)
    finally:
        sh("git -C /repo worktree remove --force %s" % wt); shutil.rmtree(wt, ignore_errors=True)
        dst = os.path.join(VERIF, "seeded", name)
        shutil.rmtree(dst, ignore_errors=True)
        os.makedirs(dst)
        shutil.copyfile(os.path.join(out, "patch.diff"), os.path.join(dst, "patch.diff"))
        if os.path.isdir(os.path.join(out, "demo")):
            shutil.copytree(os.path.join(out, "demo"), os.path.join(dst, "demo"))
        meta = {}
        try:
            meta = json.load(open(os.path.join(out, "meta.json")))
        except Exception as e:  # noqa
            meta = {"note": "sub-agent meta.json unreadable: %s" % e}
        meta["property"] = pid
        meta["confirmed"] = confirmed
        json.dump(meta, open(os.path.join(dst, "meta.json"), "w"), indent=1)
        print(json.dumps(confirmed, indent=1))


if __name__ == "__main__":
    main()
