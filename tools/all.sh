#!/bin/sh
# Run every property's check of one tier sequentially and summarise: tools/all.sh quick|thorough
tier=${1:-quick}
cd "$(dirname "$0")/.."
rc=0
for p in C01 C02 C03 C04 C05 C06 C07 C08 C09 C10 C11 C12 C13 C14 C15 C16 C17 C18 C19 C20; do
  out=$(./check run $p --tier $tier 2>&1); code=$?
  echo "$out" | grep -a "^OK\|^VIOLATION\|^INCONCLUSIVE\|^KNOWN-FINDING" | cut -c1-220
  [ $code -ne 0 ] && { echo "== $p exit $code"; echo "$out" | tail -30; rc=1; }
done
exit $rc
